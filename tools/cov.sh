#!/bin/sh
# usage: tools/cov.sh [Cxx ...]   line coverage of /repo/exponax by the quick tier of the given checks (default: all).
# Debugging aid for finding blind spots: a line no exploration executes cannot be guarded by any check.
# Evidence/replays go to scratch directories; nothing committed is touched.
D=${VERIF_COV:-/tmp/verifcov}; rm -rf "$D"; mkdir -p "$D"
export VERIF_COV="$D" VERIF_EVIDENCE_DIR="$D/evidence" VERIF_REPLAY_DIR="$D/replays" COVERAGE_CORE=sysmon
cd /verif
PROPS="$@"; [ -z "$PROPS" ] && PROPS="C01 C02 C03 C04 C05 C06 C07 C08 C09 C10 C11 C12 C13 C14 C15 C16 C17 C18 C19 C20"
for p in $PROPS; do ./check $p --tier quick --jobs ${JOBS:-8} > "$D/$p.log" 2>&1; echo "$p rc=$?"; done
cd "$D" && /venv/bin/python -m coverage combine --data-file="$D/combined" "$D"/cov.* >/dev/null 2>&1
/venv/bin/python -m coverage report --data-file="$D/combined" --show-missing --include='*/exponax/*' > "$D/report.txt" 2>&1
tail -1 "$D/report.txt"

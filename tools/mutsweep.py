#!/venv/bin/python
"""usage: mutsweep.py <out.jsonl> [--stride K] [--offset O] [--workers W] [--jobs J] [--files glob ...]

Systematic (not sampled at random) mutation sweep used to look for blind spots of the checks: every syntactic mutation site of exponax/ (AST based:
arithmetic / comparison operator swaps, numeric constants, boolean constants, .real/.imag, axis numbers, slice bounds) is enumerated in file order and
every K-th one is turned into a one-line mutant in a scratch worktree of /repo's HEAD (never in /repo itself).  The quick checks mapped to the
mutated file are run against it through PYTHONPATH until one reports a violation.  Survivors (no mapped check fires) are listed for manual triage:
equivalent mutant, mutant the pinned suite catches (not a realistic change), or a genuine blind spot that needs a stronger check.
Evidence / replays of these runs go to scratch directories."""
import argparse
import ast
import concurrent.futures as cf
import fnmatch
import json
import os
import subprocess
import sys

REPO = "/repo"
SCRATCH = "/tmp/seed"

MAP = [
    ("exponax/_spectral.py", ["C04", "C05", "C17", "C10", "C15", "C03"]),
    ("exponax/_base_stepper.py", ["C01", "C20", "C02"]),
    ("exponax/_forced_stepper.py", ["C12", "C14"]),
    ("exponax/_repeated_stepper.py", ["C14", "C06"]),
    ("exponax/_interpolation.py", ["C15"]),
    ("exponax/_poisson.py", ["C05", "C20"]),
    ("exponax/_utils.py", ["C14", "C04", "C18"]),
    ("exponax/etdrk/*", ["C02", "C19"]),
    ("exponax/ic/*", ["C18", "C20"]),
    ("exponax/metrics/*", ["C16", "C20"]),
    ("exponax/nonlin_fun/*", ["C03", "C09", "C10", "C12", "C20"]),
    ("exponax/stepper/generic/*", ["C13", "C02", "C01", "C12"]),
    ("exponax/stepper/reaction/*", ["C02", "C03", "C09", "C13"]),
    ("exponax/stepper/*", ["C01", "C02", "C13", "C12", "C09", "C11"]),
]
SKIP = ("exponax/viz/", "exponax/_version", "_belousov_zhabotinsky")

BIN = {ast.Add: "-", ast.Sub: "+", ast.Mult: "/", ast.Div: "*", ast.FloorDiv: "/", ast.Pow: "*"}
BINTXT = {ast.Add: "+", ast.Sub: "-", ast.Mult: "*", ast.Div: "/", ast.FloorDiv: "//", ast.Pow: "**"}
CMP = {ast.Eq: "!=", ast.NotEq: "==", ast.Lt: "<=", ast.LtE: "<", ast.Gt: ">=", ast.GtE: ">"}
CMPTXT = {ast.Eq: "==", ast.NotEq: "!=", ast.Lt: "<", ast.LtE: "<=", ast.Gt: ">", ast.GtE: ">="}


def checks_for(path):
    for pat, cs in MAP:
        if fnmatch.fnmatch(path, pat):
            return cs
    return ["C20"]


def find_op(src_lines, left, right, optxt):
    """position of the operator token between the end of `left` and the start of `right` (same line only)"""
    if left.end_lineno != right.lineno:
        return None
    line = src_lines[left.end_lineno - 1]
    seg = line[left.end_col_offset:right.col_offset]
    i = seg.find(optxt)
    if i < 0 or seg.count(optxt) != 1:
        return None
    if optxt in ("*", "/") and (seg.count("**") or seg.count("//")):
        return None
    return left.end_lineno, left.end_col_offset + i, len(optxt)


class Sites(ast.NodeVisitor):
    def __init__(self, lines):
        self.lines = lines
        self.sites = []  # (lineno, col, length, replacement, kind)
        self.in_annotation = 0

    def add(self, pos, rep, kind):
        if pos:
            self.sites.append((pos[0], pos[1], pos[2], rep, kind))

    def visit_FunctionDef(self, node):
        # skip annotations, decorators and default values (documented defaults are not what the properties are about); visit the body
        for b in node.body:
            self.visit(b)

    def visit_AnnAssign(self, node):
        if node.value is not None:
            self.visit(node.value)

    def visit_Expr(self, node):
        if isinstance(node.value, ast.Constant) and isinstance(node.value.value, str):
            return  # docstring
        self.generic_visit(node)

    def visit_Raise(self, node):
        return  # error messages are not behaviour

    def visit_BinOp(self, node):
        t = type(node.op)
        if t in BIN and not (isinstance(node.left, ast.Constant) and isinstance(node.left.value, str)):
            self.add(find_op(self.lines, node.left, node.right, BINTXT[t]), BIN[t], "binop")
        self.generic_visit(node)

    def visit_Compare(self, node):
        if len(node.ops) == 1 and type(node.ops[0]) in CMP:
            self.add(find_op(self.lines, node.left, node.comparators[0], CMPTXT[type(node.ops[0])]), CMP[type(node.ops[0])], "compare")
        self.generic_visit(node)

    def visit_UnaryOp(self, node):
        if isinstance(node.op, ast.USub) and not isinstance(node.operand, ast.Constant):
            self.sites.append((node.lineno, node.col_offset, 1, "+", "neg"))
        self.generic_visit(node)

    def visit_Constant(self, node):
        v = node.value
        if node.lineno != node.end_lineno:
            return
        ln = node.end_col_offset - node.col_offset
        if v is True or v is False:
            self.sites.append((node.lineno, node.col_offset, ln, "False" if v else "True", "bool"))
        elif isinstance(v, int) and not isinstance(v, bool):
            self.sites.append((node.lineno, node.col_offset, ln, str(v + 1), "int"))
        elif isinstance(v, float):
            self.sites.append((node.lineno, node.col_offset, ln, repr(v * 1.5 if v != 0 else 1.0), "float"))

    def visit_Attribute(self, node):
        if node.attr in ("real", "imag") and node.lineno == node.end_lineno:
            self.sites.append((node.end_lineno, node.end_col_offset - 4, 4, "imag" if node.attr == "real" else "real", "realimag"))
        self.generic_visit(node)


def enumerate_sites(files):
    out = []
    for f in files:
        src = open(os.path.join(REPO, f)).read()
        lines = src.split("\n")
        v = Sites(lines)
        v.visit(ast.parse(src))
        for (ln, col, length, rep, kind) in sorted(set(v.sites)):
            out.append({"file": f, "line": ln, "col": col, "len": length, "rep": rep, "kind": kind, "orig": lines[ln - 1][col:col + length],
                        "text": lines[ln - 1].strip()[:140]})
    return out


def run_mutant(args):
    idx, m, slot, jobs, tier = args
    wt = f"{SCRATCH}/ms_{slot}"
    if not os.path.isdir(wt):
        subprocess.run(["git", "-C", REPO, "worktree", "add", "-q", "--detach", wt, "HEAD"], check=True)
    subprocess.run(["git", "-C", wt, "checkout", "-q", "--", "exponax"], check=True)
    p = os.path.join(wt, m["file"])
    lines = open(p).read().split("\n")
    l = lines[m["line"] - 1]
    assert l[m["col"]:m["col"] + m["len"]] == m["orig"], (m, l)
    lines[m["line"] - 1] = l[:m["col"]] + m["rep"] + l[m["col"] + m["len"]:]
    open(p, "w").write("\n".join(lines))
    res = dict(m, index=idx, mutated=lines[m["line"] - 1].strip()[:140], ran=[], detected_by=None)
    env = dict(os.environ, PYTHONPATH=wt, VERIF_EVIDENCE_DIR=f"{SCRATCH}/ms_evidence_{slot}", VERIF_REPLAY_DIR=f"{SCRATCH}/ms_replays_{slot}")
    imp = subprocess.run(["/venv/bin/python", "-c", "import exponax"], env=env, capture_output=True, text=True, cwd="/verif")
    if imp.returncode != 0:
        res["detected_by"] = "import-error"
    else:
        for c in checks_for(m["file"]):
            try:
                r = subprocess.run(["./check", c, "--tier", tier, "--jobs", str(jobs)], cwd="/verif", capture_output=True, text=True, env=env, timeout=2400)
            except subprocess.TimeoutExpired:
                res["ran"].append(c)
                res["detected_by"] = f"timeout:{c}"  # a check that does not terminate within 40 minutes is noticed, but it is not a verdict
                break
            res["ran"].append(c)
            if r.returncode < 0:
                res["detected_by"] = f"killed:{c}"
                break
            if r.returncode != 0:
                sig = [x.strip()[len("violation "):].split(": ")[0] for x in r.stdout.splitlines() if x.strip().startswith("violation ")]
                res["detected_by"] = c
                res["signature"] = sig[:2]
                break
    subprocess.run(["git", "-C", wt, "checkout", "-q", "--", "exponax"], check=True)
    return res


def main():
    ap = argparse.ArgumentParser()
    ap.add_argument("out")
    ap.add_argument("--stride", type=int, default=12)
    ap.add_argument("--offset", type=int, default=0)
    ap.add_argument("--workers", type=int, default=4)
    ap.add_argument("--jobs", type=int, default=4)
    ap.add_argument("--tier", default="quick")
    ap.add_argument("--slot0", type=int, default=0, help="first scratch-worktree slot (so that two sweeps can run side by side)")
    ap.add_argument("--files", nargs="*", default=["exponax/*.py", "exponax/*/*.py", "exponax/*/*/*.py"])
    ap.add_argument("--list", action="store_true")
    a = ap.parse_args()
    tracked = subprocess.run(["git", "-C", REPO, "ls-files", "exponax"], capture_output=True, text=True).stdout.split()
    files = [f for f in tracked if f.endswith(".py") and any(fnmatch.fnmatch(f, g) for g in a.files) and not any(s in f for s in SKIP)]
    sites = enumerate_sites(sorted(files))
    chosen = [(i, s) for i, s in enumerate(sites) if i % a.stride == a.offset % a.stride]
    print(f"{len(sites)} mutation sites in {len(files)} files; running {len(chosen)} (stride {a.stride}, offset {a.offset})", flush=True)
    if a.list:
        for i, s in chosen:
            print(i, s["file"], s["line"], s["kind"], s["orig"], "->", s["rep"], "|", s["text"])
        return
    done = set()
    if os.path.exists(a.out):
        done = {json.loads(l)["index"] for l in open(a.out)}
    todo = [(i, s) for i, s in chosen if i not in done]
    with cf.ThreadPoolExecutor(a.workers) as ex, open(a.out, "a") as fh:
        slots = list(range(a.slot0, a.slot0 + a.workers))
        import queue

        q = queue.Queue()
        for s in slots:
            q.put(s)

        def work(item):
            slot = q.get()
            try:
                return run_mutant((item[0], item[1], slot, a.jobs, a.tier))
            finally:
                q.put(slot)

        for r in ex.map(work, todo):
            fh.write(json.dumps(r) + "\n")
            fh.flush()
            print(r["index"], r["file"], r["line"], r["kind"], "->", r["detected_by"] or "SURVIVED", r.get("signature", ""), flush=True)
    for s in range(a.slot0, a.slot0 + a.workers):
        subprocess.run(["git", "-C", REPO, "worktree", "remove", "--force", f"{SCRATCH}/ms_{s}"], capture_output=True)


if __name__ == "__main__":
    main()

#!/venv/bin/python
"""usage: matrix.py <seed-id> <prop> [<prop>...]  - apply /verif/seeded/<id>/patch.diff to /repo, run quick checks, revert, record in meta.json"""
import json, os, subprocess, sys
sid, props = sys.argv[1], sys.argv[2:]
d = f"/verif/seeded/{sid}"
assert not subprocess.run(["git", "-C", "/repo", "status", "--porcelain", "--", "exponax"], capture_output=True, text=True).stdout.strip(), "/repo not clean"
subprocess.run(["git", "-C", "/repo", "apply", f"{d}/patch.diff"], check=True)
res = {}
try:
    for p in props:
        r = subprocess.run(["./check", p, "--tier", os.environ.get("TIER", "quick")], cwd="/verif", capture_output=True, text=True)
        sigs = [l.strip()[len("violation "):].split(":")[0] for l in r.stdout.splitlines() if l.strip().startswith("violation ")]
        res[p] = {"rc": r.returncode, "violation_lines": r.stdout.count("\nVIOLATION ") + r.stdout.startswith("VIOLATION "), "signatures": sigs[:6]}
        print(sid, p, "rc=%d" % r.returncode, sigs[:3])
finally:
    subprocess.run(["git", "-C", "/repo", "checkout", "--", "exponax"], check=True)
m = json.load(open(f"{d}/meta.json"))
db = m.get("detected_by") if isinstance(m.get("detected_by"), dict) else {}
db.update(res)
m["detected_by"] = db
m["ran"] = "tools/matrix.py: git -C /repo apply patch.diff; ./check <prop> --tier quick; git -C /repo checkout -- exponax"
json.dump(m, open(f"{d}/meta.json", "w"), indent=1)

#!/venv/bin/python
"""usage: matrix.py <seed-id> <prop> [<prop>...]
Runs quick checks against a seeded change WITHOUT touching /repo: a scratch worktree of /repo's HEAD gets seeded/<id>/patch.diff applied and is put
first on PYTHONPATH (the checks import exponax from there).  Results are recorded in seeded/<id>/meta.json (detected_by).
(The own-property detection of every seed was additionally confirmed with tools/mut.sh, i.e. git -C /repo apply ... ; ./check ; git checkout.)"""
import json, os, subprocess, sys, shutil
sid, props = sys.argv[1], sys.argv[2:]
d = f"/verif/seeded/{sid}"
wt = f"/tmp/seed/mx_{sid}"
subprocess.run(["git", "-C", "/repo", "worktree", "remove", "--force", wt], capture_output=True)
subprocess.run(["git", "-C", "/repo", "worktree", "add", "-q", "--detach", wt, "HEAD"], check=True)
res = {}
try:
    subprocess.run(["git", "-C", wt, "apply", f"{d}/patch.diff"], check=True)
    os.makedirs("/tmp/seed/mx_evidence", exist_ok=True)
    env = dict(os.environ, PYTHONPATH=wt, VERIF_EVIDENCE_DIR="/tmp/seed/mx_evidence", VERIF_REPLAY_DIR="/tmp/seed/mx_replays")
    chk = subprocess.run(["/venv/bin/python", "-c", "import exponax; print(exponax.__file__)"], env=env, capture_output=True, text=True, cwd="/verif").stdout.strip()
    assert chk.startswith(wt), chk
    for p in props:
        r = subprocess.run(["./check", p, "--tier", os.environ.get("TIER", "quick")], cwd="/verif", capture_output=True, text=True, env=env)
        sigs = [l.strip()[len("violation "):].split(": ")[0] for l in r.stdout.splitlines() if l.strip().startswith("violation ")]
        res[p] = {"rc": r.returncode, "violation_lines": sum(1 for l in r.stdout.splitlines() if l.startswith("VIOLATION ")), "signatures": sigs[:6]}
        print(sid, p, "rc=%d" % r.returncode, sigs[:3], flush=True)
finally:
    subprocess.run(["git", "-C", "/repo", "worktree", "remove", "--force", wt], capture_output=True)
m = json.load(open(f"{d}/meta.json"))
db = m.get("detected_by") if isinstance(m.get("detected_by"), dict) else {}
db.update(res)
m["detected_by"] = db
m["ran"] = ("tools/matrix.py: scratch worktree of /repo HEAD + patch.diff on PYTHONPATH, ./check <prop> --tier quick; own-property detection also confirmed with "
            "tools/mut.sh (git -C /repo apply patch.diff; ./check; git -C /repo checkout -- exponax)")
json.dump(m, open(f"{d}/meta.json", "w"), indent=1)

#!/bin/bash
# usage: sedmut.sh <file under /repo> <sed expr> <prop> [...]  : ad-hoc mutation by sed, run quick checks, revert
F="$1"; E="$2"; shift 2
cd /repo || exit 2
[ -n "$(git status --porcelain -- exponax)" ] && { echo "/repo/exponax not clean"; exit 2; }
sed -i "$E" "$F"; git diff --stat -- exponax | tail -1
[ -z "$(git status --porcelain -- exponax)" ] && { echo "sed changed nothing"; exit 2; }
trap 'git -C /repo checkout -- exponax' EXIT
for p in "$@"; do
  out=$(cd /verif && VERIF_EVIDENCE_DIR=/tmp/seed/mx_evidence VERIF_REPLAY_DIR=/tmp/seed/mx_replays ./check "$p" --tier "${TIER:-quick}" 2>/dev/null); rc=$?
  echo "== $p rc=$rc :: $(echo "$out" | grep -c '^VIOLATION') violation line(s)"
  echo "$out" | grep -E '^  violation' | cut -c1-230 | head -${SHOW:-3}
done

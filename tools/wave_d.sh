#!/bin/bash
# usage: wave_d.sh Cxx   -> confirm both mutations of /tmp/seed/wd_Cxx, then run the own-property quick check against each kept seed
P="$1"; W=/tmp/seed/wd_$P
for i in 1 2; do
  [ -f $W/mutation_$i.diff ] || { echo "$P: mutation_$i.diff missing"; continue; }
  /verif/tools/confirm_seed.sh $W $i ${P}d$i
done
for i in 1 2; do
  [ -d /verif/seeded/${P}d$i ] && VERIF_JOBS=6 /verif/tools/matrix.py ${P}d$i $P
done
echo "$P: WAVE-DONE"

#!/bin/bash
# usage: confirm_seed.sh <worktree> <i> <seed-id>    confirms demo/suite behaviour of mutation_i in the scratch worktree, then stores it under /verif/seeded/<seed-id>/
W="$1"; I="$2"; ID="$3"
cd "$W" || exit 2
git checkout -q -- exponax
export PYTHONPATH="$W"
/venv/bin/python demo_$I.py > /tmp/seed/$ID.demo_clean.log 2>&1; RC_CLEAN=$?
git apply mutation_$I.diff || { echo "$ID: patch does not apply"; exit 1; }
/venv/bin/python demo_$I.py > /tmp/seed/$ID.demo_mut.log 2>&1; RC_MUT=$?
SUITE=$(/verif/tools/suite.py "$W" 2>&1); RC_SUITE=$?
git checkout -q -- exponax
echo "$ID: demo_clean_rc=$RC_CLEAN demo_mut_rc=$RC_MUT suite_rc=$RC_SUITE :: $(echo "$SUITE" | head -1)"
if [ $RC_CLEAN -eq 0 ] && [ $RC_MUT -ne 0 ] && [ $RC_SUITE -eq 0 ]; then
  mkdir -p /verif/seeded/$ID
  cp mutation_$I.diff /verif/seeded/$ID/patch.diff; cp demo_$I.py /verif/seeded/$ID/demo.py
  /venv/bin/python - "$W/meta_$I.json" "$ID" "$(echo "$SUITE" | head -1)" <<'PY'
import json,sys
m=json.load(open(sys.argv[1])); ID=sys.argv[2]
out={"id":ID,"property":m.get("property"),"summary":m.get("summary"),"files":m.get("files"),"needs":m.get("needs"),
     "confirmed":{"demo_on_unmodified":"exit 0","demo_with_patch":"exit !=0","suite_with_patch":sys.argv[3],
                  "how":"tools/confirm_seed.sh in a scratch worktree under /tmp/seed (PYTHONPATH=<worktree>)"},
     "detected_by":"(filled in after running the checks)"}
json.dump(out,open(f"/verif/seeded/{ID}/meta.json","w"),indent=1)
PY
  echo "$ID: KEPT"
else
  echo "$ID: REJECTED"
fi

#!/bin/bash
# usage: detect_only.sh Cxx i prop only  -> like detect.sh but restricted to units whose name contains <only>
P="$1"; I="$2"; Q="$3"; O="$4"; WT=/tmp/seed/do_${P}_${I}_$Q
git -C /repo worktree remove --force $WT >/dev/null 2>&1
git -C /repo worktree add -q --detach $WT HEAD || exit 2
git -C $WT apply /tmp/seed/wd_$P/mutation_$I.diff || { echo "$P/$I: patch does not apply"; git -C /repo worktree remove --force $WT; exit 2; }
cd /verif
out=$(PYTHONPATH=$WT VERIF_ONLY="$O" VERIF_JOBS=${JOBS:-4} VERIF_EVIDENCE_DIR=/tmp/seed/mx_evidence_$P$I$Q VERIF_REPLAY_DIR=/tmp/seed/mx_replays ./check $Q --tier quick 2>/dev/null); rc=$?
echo "== $P/$I vs $Q[$O] rc=$rc :: $(echo "$out" | grep -c '^VIOLATION') violation line(s) :: $(echo "$out" | grep -E '^  violation' | cut -c1-200 | head -3 | tr '\n' '|')"
git -C /repo worktree remove --force $WT
rm -rf /tmp/seed/mx_evidence_$P$I$Q

#!/venv/bin/python
"""Run the repository's pinned suite in <repo dir> and compare with /root/.vp/BASELINE.json stable_pass.
usage: suite.py [repo_dir]   exit 0 iff every stable_pass test passed."""
import json, os, subprocess, sys, tempfile, xml.etree.ElementTree as ET
repo = sys.argv[1] if len(sys.argv) > 1 else "/repo"
base = json.load(open("/root/.vp/BASELINE.json"))
with tempfile.TemporaryDirectory() as d:
    x = os.path.join(d, "j.xml")
    env = dict(os.environ); env.pop("EXPONAX_VERIF", None); env["PYTHONPATH"] = repo
    p = subprocess.run(["/venv/bin/python", "-m", "pytest", "-q", "-p", "no:cacheprovider", "--timeout=900", "-n", "8",
                        "--continue-on-collection-errors", f"--junitxml={x}"], cwd=repo, env=env, capture_output=True, text=True)
    passed = set()
    for tc in ET.parse(x).getroot().iter("testcase"):
        if not any(c.tag in ("failure", "error", "skipped") for c in tc):
            passed.add(f"{tc.get('classname')}::{tc.get('name')}")
missing = [t for t in base["stable_pass"] if t not in passed]
print(p.stdout.strip().splitlines()[-1])
print(f"stable_pass: {len(base['stable_pass'])}, passed now: {len(passed)}, stable tests not passing: {len(missing)}")
for m in missing[:20]: print("  NOT PASSING:", m)
sys.exit(1 if missing else 0)

#!/bin/bash
# usage: wtmut.sh <label> <file relative to repo> <sed expr> <prop> [...] : ad-hoc mutation in a scratch worktree (never touches /repo), quick checks via PYTHONPATH
L="$1"; F="$2"; E="$3"; shift 3
WT=/tmp/seed/wt_$L
git -C /repo worktree remove --force $WT >/dev/null 2>&1
git -C /repo worktree add -q --detach $WT HEAD || exit 2
trap 'git -C /repo worktree remove --force '$WT' >/dev/null 2>&1' EXIT
sed -i "$E" "$WT/$F"
if [ -z "$(git -C $WT status --porcelain -- exponax)" ]; then echo "$L: sed changed nothing"; exit 2; fi
for p in "$@"; do
  out=$(cd /verif && PYTHONPATH=$WT VERIF_EVIDENCE_DIR=/tmp/seed/mx_evidence VERIF_REPLAY_DIR=/tmp/seed/mx_replays ./check "$p" --tier "${TIER:-quick}" 2>/dev/null); rc=$?
  echo "$L | $F | $p rc=$rc | $(echo "$out" | grep -E '^  violation' | head -2 | sed -E 's/^  violation ([^:]*):.*/\1/' | tr '\n' ' ')"
done

#!/venv/bin/python
"""Regenerates the seeded-change table of DESIGN.md (between the SEEDS-TABLE markers) from seeded/*/meta.json."""
import glob, json, os, re
rows = []
for f in sorted(glob.glob("/verif/seeded/*/meta.json")):
    m = json.load(open(f))
    db = m.get("detected_by") if isinstance(m.get("detected_by"), dict) else {}
    caught = [f"{p} ({', '.join(s.split('/', 1)[1] if '/' in s else s for s in v.get('signatures', [])[:2])})" for p, v in sorted(db.items()) if v.get("rc") == 1]
    missed = [p for p, v in sorted(db.items()) if v.get("rc") == 0]
    summ = re.sub(r"\s+", " ", m.get("summary") or "")
    if len(summ) > 230:
        summ = summ[:227] + "..."
    rows.append(f"| {m['id']} | {m.get('property')} | {summ} | {'; '.join(caught) if caught else '(not run yet)'} | {', '.join(missed) if missed else '-'} |")
table = ("| seed | property | change (sub-agent's summary) | caught by (first signatures) | ran without alarm (other properties' checks) |\n|---|---|---|---|---|\n" + "\n".join(rows))
p = "/verif/DESIGN.md"
s = open(p).read()
a, b = "<!-- SEEDS-TABLE-BEGIN -->", "<!-- SEEDS-TABLE-END -->"
if a not in s:
    s += f"\n{a}\n{b}\n"
s = s[: s.index(a) + len(a)] + "\n" + table + "\n" + s[s.index(b):]
open(p, "w").write(s)
print(len(rows), "seeds")

#!/bin/bash
# usage: mut.sh <patch file | -R:<commit>> <prop> [<prop> ...]   applies a change to /repo, runs quick checks, reverts.
set -u
P="$1"; shift
cd /repo || exit 2
if [ -n "$(git status --porcelain -- exponax)" ]; then echo "/repo/exponax not clean"; exit 2; fi
case "$P" in
  -R:*) git show "${P#-R:}" -- exponax | git apply -R || { echo "reverse apply failed"; exit 2; } ;;
  *) git apply "$P" || { echo "apply failed"; exit 2; } ;;
esac
trap 'git -C /repo checkout -- exponax' EXIT
for p in "$@"; do
  out=$(cd /verif && VERIF_EVIDENCE_DIR=/tmp/seed/mx_evidence VERIF_REPLAY_DIR=/tmp/seed/mx_replays ./check "$p" --tier "${TIER:-quick}" 2>/dev/null); rc=$?
  echo "== $p rc=$rc :: $(echo "$out" | grep -c '^VIOLATION') violation line(s)"
  echo "$out" | grep -E '^  violation' | cut -c1-260 | head -${SHOW:-4}
done

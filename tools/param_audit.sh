#!/bin/sh
# usage: tools/param_audit.sh [Cxx ...]   which keyword arguments of exponax's public classes/functions do the quick tiers only ever pass at their default?
# Debugging aid for finding blind spots (a slip that is invisible at the default value of an option needs a non-default value to be seen).
D=${VERIF_PARAM_AUDIT:-/tmp/verifaudit}; rm -rf "$D"; mkdir -p "$D"
export VERIF_PARAM_AUDIT="$D" VERIF_EVIDENCE_DIR="$D/evidence" VERIF_REPLAY_DIR="$D/replays"
cd /verif
PROPS="$@"; [ -z "$PROPS" ] && PROPS="C01 C02 C03 C04 C05 C06 C07 C08 C09 C10 C11 C12 C13 C14 C15 C16 C17 C18 C19 C20"
for p in $PROPS; do ./check $p --tier quick --jobs ${JOBS:-8} > "$D/$p.log" 2>&1; echo "$p rc=$?"; done
/venv/bin/python - "$D" <<'PY'
import glob, json, sys, collections
seen = collections.defaultdict(lambda: collections.defaultdict(set))
for f in glob.glob(sys.argv[1] + "/audit.*.json"):
    for c, ps in json.load(open(f)).items():
        for n, v in ps.items():
            seen[c][n].update(v)
with open(sys.argv[1] + "/report.txt", "w") as fh:
    for c in sorted(seen):
        for n, v in sorted(seen[c].items()):
            nd = sorted(x for x in v if x != "<default>")
            fh.write(f"{c:55s} {n:30s} nondefault={len(nd):2d} {nd[:5]}\n")
print(open(sys.argv[1] + "/report.txt").read().count("nondefault= 0"), "parameters only seen at their default; see", sys.argv[1] + "/report.txt")
PY

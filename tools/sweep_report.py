#!/venv/bin/python
"""usage: sweep_report.py <ms.jsonl> -> seeded/own_sweep.md   (summary of tools/mutsweep.py results; triage notes for the survivors are kept in TRIAGE below)"""
import collections
import json
import sys

TRIAGE = {
    ("exponax/_base_stepper.py", 98): "attribute only: `dx` is never used by any computation and no property speaks about it",
    ("exponax/_interpolation.py", 251): "outside the properties: only changes what happens to the Nyquist mode of an even grid when up-sampling (C15 quantifies over Nyquist-free states; the mean is unaffected)",
    ("exponax/_interpolation.py", 275): "outside the properties: only changes what happens to the Nyquist mode of an even target grid when down-sampling (mean unaffected)",
    ("exponax/_spectral.py", 442): "equivalent: inside the even-N branch, N / 2 == N // 2",
    ("exponax/_spectral.py", 847): "equivalent: the domain extent cancels in the projection (as the comment in the source says)",
    ("exponax/ic/_truncated_fourier_series.py", 85): "equivalent: JAX clamps the out-of-range index 1 of a length-1 array to its only element",
    ("exponax/_spectral.py", 1023): "equivalent: the norm array has a leading axis of length 1 and JAX clamps the out-of-range index 1 to 0",
    ("exponax/ic/_multi_channel.py", 79): "equivalent: both sequences always have the same length",
    ("exponax/_spectral.py", 853): "equivalent: keepdims=False broadcasts to the same result",
    ("exponax/_spectral.py", 1016): "equivalent: dk = k[1] + k[0] = 1 + 0",
}
rows = [json.loads(l) for f in sys.argv[1:] for l in open(f)]
rows.sort(key=lambda r: r["index"])
by = collections.Counter((r["detected_by"] or "SURVIVED").split(":")[0] for r in rows)
out = ["# Own systematic mutation sweep (tools/mutsweep.py)", "",
       "Every syntactic mutation site of `exponax/` (operators, comparisons, constants, `.real/.imag`; defaults, annotations, docstrings and error messages",
       "excluded; `viz` excluded) is enumerated in file order; every k-th site became a one-line mutant in a scratch worktree and the quick checks mapped to the",
       "file were run until one reported a violation. This is a blind-spot search, not part of any verdict.", "",
       f"{len(rows)} mutants run: " + ", ".join(f"{k}: {v}" for k, v in sorted(by.items())), "",
       "| # | site | mutant | result |", "|---|---|---|---|"]
for r in rows:
    res = r["detected_by"] or "SURVIVED"
    if r["detected_by"] and r.get("signature"):
        res += " (" + ", ".join(s.split("/", 1)[1] if "/" in s else s for s in r["signature"][:2]) + ")"
    if not r["detected_by"]:
        res += " after " + ",".join(r["ran"]) + " - " + TRIAGE.get((r["file"], r["line"]), "NOT TRIAGED")
    out.append(f"| {r['index']} | {r['file'].replace('exponax/', '')}:{r['line']} | `{r['mutated'][:90].replace('|', '¦')}` | {res} |")
open("/verif/seeded/own_sweep.md", "w").write("\n".join(out) + "\n")
print(len(rows), dict(by))

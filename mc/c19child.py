"""
Child session of the C19 harness: run in a fresh process whose precision mode is decided by JAX_ENABLE_X64 (0 = the
library's default single-precision session, 1 = the double-precision session).  Reads one JSON task on stdin, prints
one JSON result on stdout.  No oracle in here: it only executes the real code and reports what it observed.
"""
import json
import os
import sys

sys.path.insert(0, os.path.dirname(os.path.dirname(os.path.abspath(__file__))))
import warnings

warnings.filterwarnings("ignore")
import numpy as np


def z_lattice():
    zs = [0j]
    for e in range(-3, 16):
        zs.append(complex(-(10.0**e), 0.0))
    for e in (-2, 0, 2, 4, 6, 9, 12, 15):
        r = 10.0**e
        for th in (np.pi / 2, -np.pi / 2, 3 * np.pi / 4, -3 * np.pi / 4, 5 * np.pi / 8, -7 * np.pi / 8):
            re = 0.0 if abs(abs(th) - np.pi / 2) < 1e-12 else r * np.cos(th)
            zs.append(complex(re, r * np.sin(th)))
    return np.array(zs)


def enc(a):
    a = np.asarray(a)
    if a.dtype.kind == "c":
        return {"re": np.real(a).astype(np.float64).ravel().tolist(), "im": np.imag(a).astype(np.float64).ravel().tolist(), "shape": list(a.shape)}
    return {"re": a.astype(np.float64).ravel().tolist(), "shape": list(a.shape)}


def main():
    task = json.loads(sys.stdin.read())
    import contextlib

    with contextlib.redirect_stdout(sys.stderr):  # library prints (warnings of the conservative KS stepper) must not corrupt the JSON
        import jax
        import jax.numpy as jnp

        import exponax as ex
        from mc import catalog

        if task.get("late_x64"):  # double precision switched on AFTER the library was imported AND used in single precision ("once x64 is enabled")
            # history: single-precision use of the very same configurations first (anything memoised per resolution / contour size / class in
            # the float32 phase must not leak into the double-precision phase), then the switch, then the audited double-precision run
            warm = {"x64_before": bool(jax.config.jax_enable_x64)}
            if task["kind"] == "stepper":
                e0 = catalog.by_name()[task["entry"]]
                D0, N0 = task["D"], task["N"]
                L0, dt0 = (1.0, 1.0) if e0.fixed else (2.5, 0.05)
                for order in ((0,) if e0.linear else (0, 1, 2, 3, 4)):
                    st0 = e0.build(ex, jnp, D0, N0, L0, dt0, order)
                    y0 = st0(jnp.asarray(catalog.smooth_states(D0, N0, e0.channels(D0), task["seed"], count=1, amp=e0.amp)[0]))
                    warm["warm_dtype"] = str(y0.dtype)
            elif task["kind"] == "etdrk":
                for order0 in (1, 2, 3, 4):  # fills whatever the integrators memoise (contour points ...) in single precision
                    ex.stepper.Burgers(1, 1.0, 16, 0.1, order=order0)(jnp.zeros((1, 16)))
            jax.config.update("jax_enable_x64", True)
        out = {"x64": bool(jax.config.jax_enable_x64), "default_float": str(jnp.zeros(1).dtype), "items": []}
        if task["kind"] == "etdrk":
            from exponax.nonlin_fun import BaseNonlinearFun

            class UserN(BaseNonlinearFun):
                kind: str

                def __init__(self, kind):
                    super().__init__(1, 4)
                    self.kind = kind

                def __call__(self, u_hat):
                    if self.kind == "const":
                        return jnp.ones_like(u_hat) * (0.6 - 0.3j)
                    if self.kind == "lin":
                        return (0.7 + 0.2j) * u_hat
                    return u_hat * u_hat

            Z = z_lattice()
            for dt in task["dts"]:
                lin = jnp.asarray(Z / dt)[None, :]
                for p in (0, 1, 2, 3, 4):
                    for kind in ("const", "lin", "sq"):
                        if p == 0 and kind != "const":
                            continue
                        cls = [ex.etdrk.ETDRK0, ex.etdrk.ETDRK1, ex.etdrk.ETDRK2, ex.etdrk.ETDRK3, ex.etdrk.ETDRK4][p]
                        integ = cls(dt, lin) if p == 0 else cls(dt, lin, UserN(kind))
                        for sname, s in (("ones", np.full(Z.shape, 0.8 - 0.3j)), ("zero", np.zeros(Z.shape, dtype=complex))):
                            y = integ.step_fourier(jnp.asarray(s)[None, :].astype(lin.dtype))
                            out["items"].append({"key": ["etdrk", p, kind, dt, sname], "dtype": str(y.dtype), "y": enc(np.asarray(y)[0])})
            out["z"] = enc(Z)
        elif task["kind"] == "discrete":
            # discrete decisions (layout, masks, band limits) must not depend on the precision session
            for N in task["Ns"]:
                for D in ((1, 2) if N <= 40 else (1,)):
                    W = np.asarray(ex.spectral.build_wavenumbers(D, N))
                    dm = {}
                    for fr in (2 / 3, 0.5):
                        m = np.asarray(ex.nonlin_fun.PolynomialNonlinearFun(D, N, dealiasing_fraction=fr, coefficients=(0.0, 1.0)).dealiasing_mask)
                        dm[str(round(fr, 3))] = int(m.sum())
                    lp = [int(np.asarray(ex.spectral.low_pass_filter_mask(D, N, cutoff=c)).sum()) for c in range(0, N // 2 + 1)]
                    sc = np.asarray(ex.spectral.build_scaling_array(D, N, mode="coef_extraction")) / float(N) ** D
                    out["items"].append({"key": ["discrete", D, N], "wavenumbers_int": bool(np.all(W == np.round(W))), "wavenumber_sum_abs": float(np.sum(np.abs(np.round(W)))),
                                         "dealias_counts": dm, "low_pass_counts": lp, "oddball_count": int(np.asarray(ex.spectral.oddball_filter_mask(D, N)).sum()),
                                         "scaling_hist": sorted({round(float(v), 6) for v in sc.ravel()})})
        else:
            e = catalog.by_name()[task["entry"]]
            D, N = task["D"], task["N"]
            C = e.channels(D)
            L, dt = (1.0, 1.0) if e.fixed else (2.5, 0.05)
            states = catalog.smooth_states(D, N, C, task["seed"], count=2, amp=e.amp) + [np.zeros((C,) + (N,) * D)]
            for order in ((0,) if e.linear else (0, 1, 2, 3, 4)):
                st = e.build(ex, jnp, D, N, L, dt, order)
                # precision audit of everything the stepper precomputed (generic pytree view, no attribute names): kinds and item sizes of all inexact leaves
                leaf_dtypes = sorted({str(l.dtype) for l in jax.tree_util.tree_leaves(st) if hasattr(l, "dtype") and jnp.issubdtype(l.dtype, jnp.inexact)})
                out["items"].append({"key": ["leaves", e.name, D, N, order], "leaf_dtypes": leaf_dtypes})
                for si, s in enumerate(states):
                    sj = jnp.asarray(s)  # becomes float32 in the default session
                    y = st(sj)
                    yh = st.step_fourier(ex.fft(sj, num_spatial_dims=D))
                    # the same step with the transforms done by numpy in double precision (only meaningful in the x64 session):
                    # a silent single-precision round trip inside the library's fft / ifft wrappers shows up as a 1e-7 discrepancy
                    ax = tuple(range(-D, 0))
                    y_alt = np.fft.irfftn(np.asarray(st.step_fourier(jnp.asarray(np.fft.rfftn(np.asarray(s, dtype=np.float64), axes=ax)))), s=(N,) * D, axes=ax)
                    out["items"].append({"key": ["stepper", e.name, D, N, order, si], "in_dtype": str(sj.dtype), "dtype": str(y.dtype),
                                         "fourier_dtype": str(yh.dtype), "y": enc(y), "y_alt": enc(y_alt)})
    sys.stdout.write(json.dumps(out))


if __name__ == "__main__":
    from mc.core import _maybe_start_coverage, _maybe_start_param_audit

    _maybe_start_coverage()
    _maybe_start_param_audit()
    main()

"""CLI:  ./check C07 [--tier quick|thorough] [--jobs N] [--replay file]"""
import argparse
import os
import sys

sys.path.insert(0, os.path.dirname(os.path.dirname(os.path.abspath(__file__))))


def main():
    ap = argparse.ArgumentParser()
    ap.add_argument("prop")
    ap.add_argument("--tier", default=os.environ.get("VERIF_TIER", "quick"), choices=["quick", "thorough"])
    ap.add_argument("--seed", type=int, default=int(os.environ.get("VERIF_SEED", "0") or 0))
    ap.add_argument("--jobs", type=int, default=int(os.environ.get("VERIF_JOBS", "0") or 0))
    ap.add_argument("--replay", default=None)
    a = ap.parse_args()
    jobs = a.jobs or min(16, os.cpu_count() or 1)
    from mc.core import run_check

    rc = run_check(a.prop, a.tier, a.seed, jobs, replay=a.replay)
    sys.exit(rc)


if __name__ == "__main__":
    main()

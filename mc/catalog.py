"""
Catalogue of every public stepper class of exponax with, for each entry,
  * a builder with fixed, well-conditioned parameters,
  * the DOCUMENTED linear symbol lambda(k) per channel (written from the docstring equations, via mc.ref),
  * a builder of the PUBLIC nonlinear-function object with the same arguments,
  * structural flags used by the symmetry / conservation / precision harnesses.

`exported_stepper_classes()` enumerates the package exports at run time so that a class missing from
the catalogue is noticed (harnesses assert coverage).
"""

from __future__ import annotations

import math

import numpy as np

from mc import ref

TWO_THIRDS = 2 / 3


def difficulty_to_normalized(g, D, N):
    return tuple(gj if j == 0 else gj / (N**j * 2 ** (j - 1) * D) for j, gj in enumerate(g))


def normalized_to_physical(alpha, L, dt):
    return tuple(a * L**j / dt for j, a in enumerate(alpha))


def lap(k, L):
    kp = ref.kappa(k, L)
    return float(np.dot(kp, kp))


class Entry:
    def __init__(self, name, dims, channels, build, sym, nonlin, *, linear=False, odd=False, iso=True, forced=False,
                 pseudo=False, fixed=False, frac=TWO_THIRDS, amp=0.5, degree=2, vector=False, notes=""):
        self.name = name
        self.dims = dims
        self.channels = channels  # D -> C
        self.build = build  # (ex, jnp, D, N, L, dt, order) -> stepper
        self.sym = sym  # (k, D, N, L, ch) -> (lambda, magnitude)
        self.nonlin = nonlin  # (ex, jnp, D, N, L, dt) -> public nonlinear fun, or None
        self.linear = linear  # order is fixed to 0 by the class
        self.odd = odd  # has odd-order linear terms (Nyquist caveats on even N)
        self.iso = iso  # isotropic coefficients -> commutes with axis permutations
        self.forced = forced  # zero state is not a fixed point
        self.pseudo = pseudo  # state is a pseudo-scalar (2D vorticity)
        self.fixed = fixed  # L = 1, dt = 1 fixed by the interface (normalized / difficulty)
        self.frac = frac
        self.amp = amp
        self.degree = degree
        self.vector = vector  # channels are vector components tied to axes
        self.notes = notes


def _do(ex, D, L, N):
    return ex.spectral.build_derivative_operator(D, L, N)


def entries():
    E = []

    def add(*a, **k):
        E.append(Entry(*a, **k))

    one = lambda D: 1
    vec = lambda D: D

    # ------------------------------------------------------------------ linear (order 0, no nonlinear term)
    add("Advection", (1, 2, 3), one, lambda ex, jnp, D, N, L, dt, order: ex.stepper.Advection(D, L, N, dt, velocity=0.7),
        lambda k, D, N, L, ch: ref.sym_advection(k, L, [0.7] * D), None, linear=True, odd=True)
    add("Diffusion", (1, 2, 3), one, lambda ex, jnp, D, N, L, dt, order: ex.stepper.Diffusion(D, L, N, dt, diffusivity=0.05),
        lambda k, D, N, L, ch: ref.sym_diffusion(k, L, 0.05 * np.eye(D)), None, linear=True)
    add("AdvectionDiffusion", (1, 2, 3), one,
        lambda ex, jnp, D, N, L, dt, order: ex.stepper.AdvectionDiffusion(D, L, N, dt, velocity=-0.6, diffusivity=0.02),
        lambda k, D, N, L, ch: ref.sym_sum(ref.sym_advection(k, L, [-0.6] * D), ref.sym_diffusion(k, L, 0.02 * np.eye(D))), None,
        linear=True, odd=True)
    add("Dispersion", (1, 2, 3), one, lambda ex, jnp, D, N, L, dt, order: ex.stepper.Dispersion(D, L, N, dt, dispersivity=0.04),
        lambda k, D, N, L, ch: ref.sym_dispersion(k, L, [0.04] * D, False), None, linear=True, odd=True)
    add("HyperDiffusion", (1, 2, 3), one, lambda ex, jnp, D, N, L, dt, order: ex.stepper.HyperDiffusion(D, L, N, dt, hyper_diffusivity=3e-3),
        lambda k, D, N, L, ch: ref.sym_hyper(k, L, 3e-3, False), None, linear=True)
    add("GeneralLinearStepper", (1, 2, 3), one,
        lambda ex, jnp, D, N, L, dt, order: ex.stepper.generic.GeneralLinearStepper(D, L, N, dt, linear_coefficients=(-0.1, -0.4, 0.03, 0.02, -0.001)),
        lambda k, D, N, L, ch: ref.sym_general(k, L, (-0.1, -0.4, 0.03, 0.02, -0.001)), None, linear=True, odd=True)
    add("NormalizedLinearStepper", (1, 2, 3), one,
        lambda ex, jnp, D, N, L, dt, order: ex.stepper.generic.NormalizedLinearStepper(D, N, normalized_linear_coefficients=(0.0, -0.05, 0.003)),
        lambda k, D, N, L, ch: ref.sym_general(k, 1.0, (0.0, -0.05, 0.003)), None, linear=True, odd=True, fixed=True)
    add("DifficultyLinearStepper", (1, 2, 3), one,
        lambda ex, jnp, D, N, L, dt, order: ex.stepper.generic.DifficultyLinearStepper(D, N, linear_difficulties=(0.0, -0.8, 1.5)),
        lambda k, D, N, L, ch: ref.sym_general(k, 1.0, difficulty_to_normalized((0.0, -0.8, 1.5), D, N)), None, linear=True, odd=True, fixed=True)
    add("DifficultyLinearStepperSimple", (1, 2, 3), one,
        lambda ex, jnp, D, N, L, dt, order: ex.stepper.generic.DifficultyLinearStepperSimple(D, N, difficulty=2.0, order=2),
        lambda k, D, N, L, ch: ref.sym_general(k, 1.0, difficulty_to_normalized((0.0, 0.0, 2.0), D, N)), None, linear=True, fixed=True)
    # Wave is linear but not diagonal: sym is None (covered by C01 with the exact 2x2 propagator)
    add("Wave", (1, 2, 3), lambda D: 2, lambda ex, jnp, D, N, L, dt, order: ex.stepper.Wave(D, L, N, dt, speed_of_sound=0.8),
        None, None, linear=True)

    # ------------------------------------------------------------------ convection family
    nu, b1 = 0.05, 0.9

    def burgers(single, cons):
        def build(ex, jnp, D, N, L, dt, order):
            return ex.stepper.Burgers(D, L, N, dt, diffusivity=nu, convection_scale=b1, single_channel=single, conservative=cons, order=order)

        def nl(ex, jnp, D, N, L, dt):
            return ex.nonlin_fun.ConvectionNonlinearFun(D, N, derivative_operator=_do(ex, D, L, N), dealiasing_fraction=TWO_THIRDS,
                                                        scale=b1, single_channel=single, conservative=cons)

        return build, nl

    for single, cons, nm in ((False, False, "Burgers"), (True, False, "Burgers/single"), (False, True, "Burgers/conservative"),
                             (True, True, "Burgers/single_conservative")):
        bld, nl = burgers(single, cons)
        add(nm, (1, 2, 3), one if single else vec, bld, lambda k, D, N, L, ch: ref.sym_diffusion(k, L, nu * np.eye(D)), nl, vector=not single)

    def kdv_sym(a3, nud, zeta, adv_over, dif_over):
        def s(k, D, N, L, ch):
            kp = ref.kappa(k, L)
            k2 = float(np.dot(kp, kp))
            if adv_over:
                disp = -a3 * (1j * np.sum(kp)) * (-k2)
                dmag = abs(a3) * np.sum(np.abs(kp)) * k2
            else:
                disp = -a3 * np.sum((1j * kp) ** 3)
                dmag = abs(a3) * np.sum(np.abs(kp) ** 3)
            hyp = -zeta * (k2**2 if dif_over else np.sum(kp**4))
            return complex(disp - nud * k2 + hyp), float(dmag + abs(nud) * k2 + abs(hyp))

        return s

    for nm, kw in (("KortewegDeVries", {}), ("KortewegDeVries/single_cons_mixed", dict(single_channel=True, conservative=True, advect_over_diffuse=True, diffuse_over_diffuse=True))):
        a3, nud, zeta, bk = 0.02, 0.01, 1e-4, -1.5
        single = kw.get("single_channel", False)
        cons = kw.get("conservative", False)

        def bld(ex, jnp, D, N, L, dt, order, kw=kw):
            return ex.stepper.KortewegDeVries(D, L, N, dt, convection_scale=bk, diffusivity=nud, dispersivity=a3, hyper_diffusivity=zeta, order=order, **kw)

        def nl(ex, jnp, D, N, L, dt, single=single, cons=cons):
            return ex.nonlin_fun.ConvectionNonlinearFun(D, N, derivative_operator=_do(ex, D, L, N), dealiasing_fraction=TWO_THIRDS, scale=bk,
                                                        single_channel=single, conservative=cons)

        add(nm, (1, 2, 3), one if single else vec, bld,
            kdv_sym(a3, nud, zeta, kw.get("advect_over_diffuse", False), kw.get("diffuse_over_diffuse", False)), nl, odd=True, vector=not single)

    psi1, psi2, b2 = 0.05, 2e-4, 0.7

    def ks_sym(k, D, N, L, ch):
        kp = ref.kappa(k, L)
        k2 = float(np.dot(kp, kp))
        k4 = float(np.sum(kp**4))
        return complex(psi1 * k2 - psi2 * k4), psi1 * k2 + psi2 * k4

    add("KuramotoSivashinsky", (1, 2, 3), one,
        lambda ex, jnp, D, N, L, dt, order: ex.stepper.KuramotoSivashinsky(D, L, N, dt, gradient_norm_scale=b2, second_order_scale=psi1,
                                                                              fourth_order_scale=psi2, order=order),
        ks_sym,
        lambda ex, jnp, D, N, L, dt: ex.nonlin_fun.GradientNormNonlinearFun(D, N, derivative_operator=_do(ex, D, L, N), dealiasing_fraction=TWO_THIRDS,
                                                                             zero_mode_fix=True, scale=b2))
    add("KuramotoSivashinskyConservative", (1, 2, 3), vec,
        lambda ex, jnp, D, N, L, dt, order: ex.stepper.KuramotoSivashinskyConservative(D, L, N, dt, convection_scale=b1, second_order_scale=psi1,
                                                                                          fourth_order_scale=psi2, order=order),
        ks_sym,
        lambda ex, jnp, D, N, L, dt: ex.nonlin_fun.ConvectionNonlinearFun(D, N, derivative_operator=_do(ex, D, L, N), dealiasing_fraction=TWO_THIRDS,
                                                                           scale=b1, single_channel=False, conservative=True), vector=True)

    # ------------------------------------------------------------------ Navier-Stokes family
    nuv, drag = 0.03, -0.07  # neither is a class default
    ns_sym = lambda k, D, N, L, ch: (complex(-nuv * lap(k, L) + drag), nuv * lap(k, L) + abs(drag))
    add("NavierStokesVorticity", (2,), one,
        lambda ex, jnp, D, N, L, dt, order: ex.stepper.NavierStokesVorticity(D, L, N, dt, diffusivity=nuv, vorticity_convection_scale=0.9, drag=drag, order=order),
        ns_sym,
        lambda ex, jnp, D, N, L, dt: ex.nonlin_fun.VorticityConvection2d(D, N, convection_scale=0.9, derivative_operator=_do(ex, D, L, N),
                                                                          dealiasing_fraction=TWO_THIRDS), pseudo=True)
    add("KolmogorovFlowVorticity", (2,), one,
        lambda ex, jnp, D, N, L, dt, order: ex.stepper.KolmogorovFlowVorticity(D, L, N, dt, diffusivity=nuv, convection_scale=0.9, drag=drag,
                                                                                 injection_mode=1, injection_scale=0.6, order=order),
        ns_sym,
        lambda ex, jnp, D, N, L, dt: ex.nonlin_fun.VorticityConvection2dKolmogorov(D, N, convection_scale=0.9, injection_mode=1, injection_scale=0.6,
                                                                                    derivative_operator=_do(ex, D, L, N), dealiasing_fraction=TWO_THIRDS),
        pseudo=True, forced=True, iso=False)
    add("NavierStokesVelocity", (3,), vec,
        lambda ex, jnp, D, N, L, dt, order: ex.stepper.NavierStokesVelocity(D, L, N, dt, diffusivity=nuv, drag=drag, order=order),
        ns_sym,
        lambda ex, jnp, D, N, L, dt: ex.nonlin_fun.ProjectedConvection3d(D, N, derivative_operator=_do(ex, D, L, N), dealiasing_fraction=TWO_THIRDS), vector=True)
    add("KolmogorovFlowVelocity", (3,), vec,
        lambda ex, jnp, D, N, L, dt, order: ex.stepper.KolmogorovFlowVelocity(D, L, N, dt, diffusivity=nuv, drag=drag, injection_mode=1, injection_scale=0.6, order=order),
        ns_sym,
        lambda ex, jnp, D, N, L, dt: ex.nonlin_fun.ProjectedConvection3dKolmogorov(D, N, injection_mode=1, injection_scale=0.6,
                                                                                    derivative_operator=_do(ex, D, L, N), dealiasing_fraction=TWO_THIRDS),
        forced=True, iso=False, vector=True)

    # ------------------------------------------------------------------ reaction family
    add("FisherKPP", (1, 2, 3), one,
        lambda ex, jnp, D, N, L, dt, order: ex.stepper.reaction.FisherKPP(D, L, N, dt, diffusivity=0.02, reactivity=0.8, order=order),
        lambda k, D, N, L, ch: (complex(-0.02 * lap(k, L) + 0.8), 0.02 * lap(k, L) + 0.8),
        lambda ex, jnp, D, N, L, dt: ex.nonlin_fun.PolynomialNonlinearFun(D, N, dealiasing_fraction=TWO_THIRDS, coefficients=[0.0, 0.0, -0.8]))
    add("AllenCahn", (1, 2, 3), one,
        lambda ex, jnp, D, N, L, dt, order: ex.stepper.reaction.AllenCahn(D, L, N, dt, diffusivity=0.01, first_order_coefficient=0.9,
                                                                            third_order_coefficient=-1.1, order=order),
        lambda k, D, N, L, ch: (complex(-0.01 * lap(k, L) + 0.9), 0.01 * lap(k, L) + 0.9),
        lambda ex, jnp, D, N, L, dt: ex.nonlin_fun.PolynomialNonlinearFun(D, N, dealiasing_fraction=0.5, coefficients=[0.0, 0.0, 0.0, -1.1]),
        frac=0.5, degree=3)

    def ch_nl(ex, jnp, D, N, L, dt):
        from exponax.stepper.reaction._cahn_hilliard import CahnHilliardNonlinearFun

        return CahnHilliardNonlinearFun(D, N, derivative_operator=_do(ex, D, L, N), dealiasing_fraction=0.5, scale=0.02 * 1.2)

    add("CahnHilliard", (1, 2, 3), one,
        lambda ex, jnp, D, N, L, dt, order: ex.stepper.reaction.CahnHilliard(D, L, N, dt, diffusivity=0.02, gamma=2e-3, first_order_coefficient=-0.8,
                                                                               third_order_coefficient=1.2, order=order),
        lambda k, D, N, L, ch: (complex(0.02 * (-lap(k, L)) * (-0.8 + 2e-3 * lap(k, L))), 0.02 * lap(k, L) * (0.8 + 2e-3 * lap(k, L))),
        ch_nl, frac=0.5, degree=3)

    # every coefficient differs from the class default, so a slip that is invisible at the defaults (k vs k^2 at k = 1, ...) is not
    GS_FEED, GS_KILL = 0.03, 0.055
    SH_R, SH_K, SH_POLY = 0.6, 0.8, (0.0, 0.0, 0.9, -1.1)

    def gs_nl(ex, jnp, D, N, L, dt):
        from exponax.stepper.reaction._gray_scott import GrayScottNonlinearFun

        return GrayScottNonlinearFun(D, N, dealiasing_fraction=0.5, feed_rate=GS_FEED, kill_rate=GS_KILL)

    add("GrayScott", (1, 2, 3), lambda D: 2,
        lambda ex, jnp, D, N, L, dt, order: ex.stepper.reaction.GrayScott(D, L, N, dt, diffusivity_1=2e-3, diffusivity_2=1e-3, feed_rate=GS_FEED,
                                                                            kill_rate=GS_KILL, order=order),
        lambda k, D, N, L, ch: (complex(-(2e-3, 1e-3)[ch] * lap(k, L)), (2e-3, 1e-3)[ch] * lap(k, L)),
        gs_nl, frac=0.5, degree=3, forced=True, notes="zero is not a fixed point (feed term)")
    add("SwiftHohenberg", (1, 2, 3), one,
        lambda ex, jnp, D, N, L, dt, order: ex.stepper.reaction.SwiftHohenberg(D, L, N, dt, reactivity=SH_R, critical_number=SH_K,
                                                                                 polynomial_coefficients=SH_POLY, order=order),
        lambda k, D, N, L, ch: (complex(SH_R - (SH_K - lap(k, L)) ** 2), SH_R + (SH_K + lap(k, L)) ** 2),
        lambda ex, jnp, D, N, L, dt: ex.nonlin_fun.PolynomialNonlinearFun(D, N, dealiasing_fraction=0.5, coefficients=SH_POLY),
        frac=0.5, degree=3)

    # ------------------------------------------------------------------ generic family (physical / normalized / difficulty)
    LC = (0.0, -0.3, 0.02, 0.01, -1e-4)  # odd and even orders
    ALPHA = (0.0, -0.05, 0.004, 2e-4, -1e-6)
    GAMMA = (0.0, -0.6, 1.5, 0.8, -2.0)

    def conv_nl(scale_fn, single, cons):
        def nl(ex, jnp, D, N, L, dt):
            return ex.nonlin_fun.ConvectionNonlinearFun(D, N, derivative_operator=_do(ex, D, L, N), dealiasing_fraction=TWO_THIRDS,
                                                        scale=scale_fn(D, N), single_channel=single, conservative=cons)

        return nl

    for single, cons in ((False, False), (True, True)):
        tag = "" if not single else "/single_cons"
        add("GeneralConvectionStepper" + tag, (1, 2, 3), one if single else vec,
            lambda ex, jnp, D, N, L, dt, order, s=single, c=cons: ex.stepper.generic.GeneralConvectionStepper(
                D, L, N, dt, linear_coefficients=LC, convection_scale=0.8, single_channel=s, conservative=c, order=order),
            lambda k, D, N, L, ch: ref.sym_general(k, L, LC), conv_nl(lambda D, N: 0.8, single, cons), odd=True, vector=not single)
        add("NormalizedConvectionStepper" + tag, (1, 2, 3), one if single else vec,
            lambda ex, jnp, D, N, L, dt, order, s=single, c=cons: ex.stepper.generic.NormalizedConvectionStepper(
                D, N, normalized_linear_coefficients=ALPHA, normalized_convection_scale=0.05, single_channel=s, conservative=c, order=order),
            lambda k, D, N, L, ch: ref.sym_general(k, 1.0, ALPHA), conv_nl(lambda D, N: 0.05, single, cons), odd=True, fixed=True, vector=not single)
        add("DifficultyConvectionStepper" + tag, (1, 2, 3), one if single else vec,
            lambda ex, jnp, D, N, L, dt, order, s=single, c=cons: ex.stepper.generic.DifficultyConvectionStepper(
                D, N, linear_difficulties=GAMMA, convection_difficulty=1.5, maximum_absolute=1.3, single_channel=s, conservative=c, order=order),
            lambda k, D, N, L, ch: ref.sym_general(k, 1.0, difficulty_to_normalized(GAMMA, D, N)),
            conv_nl(lambda D, N: 1.5 / (1.3 * N * D), single, cons), odd=True, fixed=True, vector=not single)

    def gn_nl(scale_fn):
        def nl(ex, jnp, D, N, L, dt):
            return ex.nonlin_fun.GradientNormNonlinearFun(D, N, derivative_operator=_do(ex, D, L, N), dealiasing_fraction=TWO_THIRDS,
                                                          zero_mode_fix=True, scale=scale_fn(D, N))

        return nl

    LCG = (0.0, 0.0, 0.05, 0.0, -2e-4)
    ALG = (0.0, 0.0, 0.004, 0.0, -2e-6)
    GAG = (0.0, 0.0, 1.2, 0.0, -3.0)
    add("GeneralGradientNormStepper", (1, 2, 3), one,
        lambda ex, jnp, D, N, L, dt, order: ex.stepper.generic.GeneralGradientNormStepper(D, L, N, dt, linear_coefficients=LCG, gradient_norm_scale=0.7, order=order),
        lambda k, D, N, L, ch: ref.sym_general(k, L, LCG), gn_nl(lambda D, N: 0.7))
    add("NormalizedGradientNormStepper", (1, 2, 3), one,
        lambda ex, jnp, D, N, L, dt, order: ex.stepper.generic.NormalizedGradientNormStepper(D, N, normalized_linear_coefficients=ALG,
                                                                                               normalized_gradient_norm_scale=0.003, order=order),
        lambda k, D, N, L, ch: ref.sym_general(k, 1.0, ALG), gn_nl(lambda D, N: 0.003), fixed=True)
    add("DifficultyGradientNormStepper", (1, 2, 3), one,
        lambda ex, jnp, D, N, L, dt, order: ex.stepper.generic.DifficultyGradientNormStepper(D, N, linear_difficulties=GAG, gradient_norm_difficulty=0.6,
                                                                                               maximum_absolute=1.3, order=order),
        lambda k, D, N, L, ch: ref.sym_general(k, 1.0, difficulty_to_normalized(GAG, D, N)), gn_nl(lambda D, N: 0.6 / (1.3 * N * N * D)), fixed=True)

    def poly_nl(coefs):
        def nl(ex, jnp, D, N, L, dt):
            return ex.nonlin_fun.PolynomialNonlinearFun(D, N, dealiasing_fraction=TWO_THIRDS, coefficients=coefs)

        return nl

    LCP = (0.5, 0.0, 0.02)
    PC = (0.0, 0.0, -0.6)
    ALP = (0.05, 0.0, 0.001)
    PCN = (0.0, 0.0, -0.06)
    GAP = (0.05, 0.0, 0.9)
    add("GeneralPolynomialStepper", (1, 2, 3), one,
        lambda ex, jnp, D, N, L, dt, order: ex.stepper.generic.GeneralPolynomialStepper(D, L, N, dt, linear_coefficients=LCP, polynomial_coefficients=PC, order=order),
        lambda k, D, N, L, ch: ref.sym_general(k, L, LCP), poly_nl(PC))
    add("NormalizedPolynomialStepper", (1, 2, 3), one,
        lambda ex, jnp, D, N, L, dt, order: ex.stepper.generic.NormalizedPolynomialStepper(D, N, normalized_linear_coefficients=ALP,
                                                                                             normalized_polynomial_coefficients=PCN, order=order),
        lambda k, D, N, L, ch: ref.sym_general(k, 1.0, ALP), poly_nl(PCN), fixed=True)
    add("DifficultyPolynomialStepper", (1, 2, 3), one,
        lambda ex, jnp, D, N, L, dt, order: ex.stepper.generic.DifficultyPolynomialStepper(D, N, linear_difficulties=GAP, polynomial_difficulties=PCN, order=order),
        lambda k, D, N, L, ch: ref.sym_general(k, 1.0, difficulty_to_normalized(GAP, D, N)), poly_nl(PCN), fixed=True)

    def gen_nl(scales_fn):
        def nl(ex, jnp, D, N, L, dt):
            return ex.nonlin_fun.GeneralNonlinearFun(D, N, derivative_operator=_do(ex, D, L, N), dealiasing_fraction=TWO_THIRDS,
                                                     scale_list=scales_fn(D, N), zero_mode_fix=True)

        return nl

    NC = (0.3, -0.7, 0.4)
    NCN = (0.03, -0.05, 0.002)
    NCD = (0.03, -1.2, 0.5)
    add("GeneralNonlinearStepper", (1, 2, 3), one,
        lambda ex, jnp, D, N, L, dt, order: ex.stepper.generic.GeneralNonlinearStepper(D, L, N, dt, linear_coefficients=LC, nonlinear_coefficients=NC, order=order),
        lambda k, D, N, L, ch: ref.sym_general(k, L, LC), gen_nl(lambda D, N: NC), odd=True)
    add("NormalizedNonlinearStepper", (1, 2, 3), one,
        lambda ex, jnp, D, N, L, dt, order: ex.stepper.generic.NormalizedNonlinearStepper(D, N, normalized_linear_coefficients=ALPHA,
                                                                                            normalized_nonlinear_coefficients=NCN, order=order),
        lambda k, D, N, L, ch: ref.sym_general(k, 1.0, ALPHA), gen_nl(lambda D, N: NCN), odd=True, fixed=True)
    add("DifficultyNonlinearStepper", (1, 2, 3), one,
        lambda ex, jnp, D, N, L, dt, order: ex.stepper.generic.DifficultyNonlinearStepper(D, N, linear_difficulties=GAMMA, nonlinear_difficulties=NCD,
                                                                                            maximum_absolute=1.3, order=order),
        lambda k, D, N, L, ch: ref.sym_general(k, 1.0, difficulty_to_normalized(GAMMA, D, N)),
        gen_nl(lambda D, N: (NCD[0], NCD[1] / (1.3 * N * D), NCD[2] / (1.3 * N * N * D))), odd=True, fixed=True)

    LCV = (-0.1, 0.0, 0.03)
    add("GeneralVorticityConvectionStepper", (2,), one,
        lambda ex, jnp, D, N, L, dt, order: ex.stepper.generic.GeneralVorticityConvectionStepper(D, L, N, dt, vorticity_convection_scale=0.9,
                                                                                                   linear_coefficients=LCV, order=order),
        lambda k, D, N, L, ch: ref.sym_general(k, L, LCV),
        lambda ex, jnp, D, N, L, dt: ex.nonlin_fun.VorticityConvection2d(D, N, convection_scale=0.9, derivative_operator=_do(ex, D, L, N),
                                                                          dealiasing_fraction=TWO_THIRDS), pseudo=True)
    add("GeneralVorticityConvectionStepper/injection", (2,), one,
        lambda ex, jnp, D, N, L, dt, order: ex.stepper.generic.GeneralVorticityConvectionStepper(D, L, N, dt, vorticity_convection_scale=0.9,
                                                                                                   linear_coefficients=LCV, injection_mode=1,
                                                                                                   injection_scale=0.6, order=order),
        lambda k, D, N, L, ch: ref.sym_general(k, L, LCV),
        lambda ex, jnp, D, N, L, dt: ex.nonlin_fun.VorticityConvection2dKolmogorov(D, N, convection_scale=0.9, injection_mode=1, injection_scale=0.6,
                                                                                    derivative_operator=_do(ex, D, L, N), dealiasing_fraction=TWO_THIRDS),
        pseudo=True, forced=True, iso=False)
    return E


def by_name():
    return {e.name: e for e in entries()}


def exported_stepper_classes():
    """all BaseStepper subclasses exported by exponax.stepper, .generic, .reaction (enumerated at run time)"""
    import exponax as ex

    out = {}
    for mod in (ex.stepper, ex.stepper.generic, ex.stepper.reaction):
        for nm in getattr(mod, "__all__", dir(mod)):
            obj = getattr(mod, nm, None)
            if isinstance(obj, type) and issubclass(obj, ex.BaseStepper) and obj is not ex.BaseStepper:
                out[nm] = obj
    return out


def catalogue_class_names():
    return {e.name.split("/")[0] for e in entries()}


def smallest_N(entry, D):
    """a small grid on which the dealiased band still holds at least wavenumber 1 (K>=1) for the entry's fraction"""
    for N in range(4, 40):
        if ref.band_limit(D, N, entry.frac) >= 1:
            return N
    raise ValueError


def smooth_states(D, N, C, seed, count=2, kmax=None, amp=0.5):
    """deterministic real Nyquist-free band-limited states (C, N..N)"""
    kmax = kmax if kmax is not None else max(1, min(2, (N - 1) // 2 - (1 if N % 2 == 0 else 0)))
    kmax = min(kmax, (N - 1) // 2)
    rng = np.random.RandomState(4242 + 13 * seed)
    X = ref.grid(D, N, 1.0)
    out = []
    import itertools

    ks = [k for k in itertools.product(range(-kmax, kmax + 1), repeat=D)]
    for s in range(count):
        u = np.zeros((C,) + (N,) * D)
        for c in range(C):
            for k in ks:
                a, p = rng.uniform(-1, 1), rng.uniform(0, 2 * np.pi)
                if s == 0 and sum(abs(x) for x in k) > 1:
                    continue
                u[c] += a * np.cos(2 * np.pi * sum(ki * X[d] for d, ki in enumerate(k)) + p)
            u[c] *= amp / max(1e-12, np.max(np.abs(u[c])))
        out.append(u)
    return out

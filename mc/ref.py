"""
numpy-only reference models.  Nothing in here imports exponax or jax.

Conventions written down independently of the library (from the documentation):
  * grid           x_j = j * L / N, j = 0..N-1, the same N on every axis, 'ij' ordering
  * wavevectors    integer vectors k, physical wavenumber kappa = 2*pi*k/L
  * rfft layout    leading axes: index j holds k = j for j < ceil(N/2), k = j-N otherwise
                   (so the Nyquist row of an even grid holds k = -N/2); last axis holds k = 0..N//2
"""

from __future__ import annotations

import itertools
import math

import numpy as np

# --------------------------------------------------------------------------- grids and modes


def grid(D, N, L):
    xs = np.arange(N) * (L / N)
    return np.stack(np.meshgrid(*([xs] * D), indexing="ij"))


def idx_to_k(j, N):
    return j if j < (N + 1) // 2 else j - N


def rfft_wavenumbers(D, N):
    """(D, N, ..., N//2+1) integer wavenumbers of the documented rfft layout (own rule)"""
    lead = np.array([idx_to_k(j, N) for j in range(N)])
    last = np.arange(N // 2 + 1)
    axes = [lead] * (D - 1) + [last]
    return np.stack(np.meshgrid(*axes, indexing="ij"))


def k_to_index(k, N):
    """index in the rfft layout holding wavevector k or its conjugate -k; returns (index tuple, conj?)"""
    k = tuple(int(v) for v in k)
    # canonical representative has last component in [0, N//2]
    kl = k[-1] % N
    conj = False
    if kl > N // 2:
        k = tuple(-v for v in k)
        conj = True
    idx = tuple(v % N for v in k[:-1]) + (k[-1] % N,)
    return idx, conj


def all_wavevectors(D, N):
    """every integer wavevector of the N^D grid, one per residue class: components in [-(N//2), (N-1)//2]"""
    rng = range(-(N // 2), (N - 1) // 2 + 1)
    return list(itertools.product(rng, repeat=D))


def is_nyquist(k, N):
    return N % 2 == 0 and any(abs(v) == N // 2 for v in k)


def self_conjugate(k, N):
    return all((2 * v) % N == 0 for v in k)


def halfspace(D, N, nyquist=True):
    """one representative of every {k, -k} class (mod N), simplest (smallest |k|_1, then lexicographic) first"""
    seen, out = set(), []
    for k in sorted(all_wavevectors(D, N), key=lambda k: (sum(abs(v) for v in k), max(abs(v) for v in k), tuple(-v for v in k))):
        if not nyquist and is_nyquist(k, N):
            continue
        kc = tuple(v % N for v in k)
        mk = tuple((-v) % N for v in k)
        if kc in seen or mk in seen:
            continue
        seen.add(kc)
        out.append(k)
    return out


def real_basis(D, N, nyquist=True):
    """real Fourier basis of the N^D grid: list of (k, 'c'|'s'); self-conjugate k only carry a cosine"""
    out = []
    for k in halfspace(D, N, nyquist):
        out.append((k, "c"))
        if not self_conjugate(k, N):
            out.append((k, "s"))
    return out


def mode_field(k, X, L, amp=1.0, phase=0.0):
    """amp*cos(2*pi/L k.x + phase) on the grid X (D, N..N) -> (N..N)"""
    arg = sum((2 * np.pi / L) * kd * X[d] for d, kd in enumerate(k))
    return amp * np.cos(arg + phase)


def basis_fields(D, N, L, basis, X=None):
    """(nb, N..N) array with cos / sin fields of the basis"""
    X = grid(D, N, L) if X is None else X
    out = np.empty((len(basis),) + (N,) * D)
    for i, (k, cs) in enumerate(basis):
        out[i] = mode_field(k, X, L, 1.0, 0.0 if cs == "c" else -np.pi / 2)  # cos(a - pi/2) = sin(a)
    return out


def weights(n, seed, lo=0.3, hi=1.0):
    """incommensurate deterministic weights for the superposition state"""
    i = np.arange(1, n + 1)
    w = lo + (hi - lo) * np.mod(i * (math.sqrt(2) + 0.01 * (seed % 97)) + math.sqrt(3) * (seed + 1), 1.0)
    s = np.where(np.mod(i * math.sqrt(5) + seed, 1.0) < 0.5, -1.0, 1.0)
    return w * s


def deltas(D, N):
    n = N**D
    return np.eye(n).reshape((n,) + (N,) * D)


# --------------------------------------------------------------------------- DFT (explicit sums, own implementation)


def dft_coefficient(u, k):
    """(1/N^D) sum_x u(x) exp(-2 pi i k.j/N) for a real/complex array u of shape (N,)*D"""
    D, N = u.ndim, u.shape[0]
    ph = np.ones(u.shape, dtype=complex)
    for d in range(D):
        shape = [1] * D
        shape[d] = N
        ph = ph * np.exp(-2j * np.pi * k[d] * np.arange(N) / N).reshape(shape)
    return np.sum(u * ph) / (N**D)


def full_spectrum(u):
    """normalised full complex spectrum c_k (numpy FFT) with k looked up via index k % N"""
    return np.fft.fftn(u) / u.size


# --------------------------------------------------------------------------- phi functions and ETDRK reference


def phi(n, z):
    """phi_n(z) = sum_j z^j/(j+n)!   (phi_0 = exp); Taylor for |z| < 2, recurrence closed form otherwise"""
    z = np.asarray(z, dtype=complex)
    out = np.empty_like(z)
    small = np.abs(z) < 2.0
    zs = z[small]
    acc = np.zeros_like(zs)
    term = np.ones_like(zs) / math.factorial(n)
    for j in range(0, 70):
        acc = acc + term
        term = term * zs / (j + n + 1)
    out[small] = acc
    zb = z[~small]
    with np.errstate(over="ignore", invalid="ignore"):
        p = np.exp(zb)
        for m in range(1, n + 1):
            p = (p - 1.0 / math.factorial(m - 1)) / zb
    out[~small] = p
    return out


def etdrk_ref(order, z, dt, nonlin, u):
    """
    One Cox-Matthews ETDRK step for diagonal z = lambda*dt (array broadcastable with u),
    nonlin: callable on arrays shaped like u. Coefficients straight from the phi functions.
    """
    E = np.exp(z)
    if order == 0:
        return E * u
    p1 = phi(1, z)
    Nu = nonlin(u)
    if order == 1:
        return E * u + dt * p1 * Nu
    p2 = phi(2, z)
    if order == 2:
        a = E * u + dt * p1 * Nu
        return a + dt * p2 * (nonlin(a) - Nu)
    p3 = phi(3, z)
    E2 = np.exp(z / 2)
    h1 = 0.5 * dt * phi(1, z / 2)
    f1 = p1 - 3 * p2 + 4 * p3
    f2 = p2 - 2 * p3
    f3 = 4 * p3 - p2
    if order == 3:
        a = E2 * u + h1 * Nu
        Na = nonlin(a)
        b = E * u + dt * p1 * (2 * Na - Nu)
        Nb = nonlin(b)
        return E * u + dt * (f1 * Nu + 4 * f2 * Na + f3 * Nb)
    if order == 4:
        a = E2 * u + h1 * Nu
        Na = nonlin(a)
        b = E2 * u + h1 * Na
        Nb = nonlin(b)
        c = E2 * a + h1 * (2 * Nb - Nu)
        Nc = nonlin(c)
        return E * u + dt * (f1 * Nu + 2 * f2 * (Na + Nb) + f3 * Nc)
    raise ValueError(order)


# --------------------------------------------------------------------------- documented symbols of the linear steppers


def kappa(k, L):
    return (2 * np.pi / L) * np.asarray(k, dtype=float)


# every symbol returns (lambda, magnitude) where magnitude = sum of |terms| (conditioning of the symbol itself)


def sym_advection(k, L, c):
    t = np.asarray(c, float) * kappa(k, L)
    return -1j * np.sum(t), float(np.sum(np.abs(t)))


def sym_diffusion(k, L, A):
    kp = kappa(k, L)
    M = np.asarray(A, float) * np.outer(kp, kp)
    return -float(np.sum(M)) + 0j, float(np.sum(np.abs(M)))


def sym_dispersion(k, L, xi, mixed):
    kp = kappa(k, L)
    xi = np.asarray(xi, float)
    if mixed:  # xi . grad (laplace u)  ->  (i xi.kappa) * (-|kappa|^2)
        return (1j * np.sum(xi * kp)) * (-np.dot(kp, kp)), float(np.sum(np.abs(xi * kp)) * np.dot(kp, kp))
    return np.sum(xi * (1j * kp) ** 3), float(np.sum(np.abs(xi * kp**3)))


def sym_hyper(k, L, mu, mixed):
    kp = kappa(k, L)
    if mixed:
        return -mu * np.dot(kp, kp) ** 2 + 0j, abs(mu) * np.dot(kp, kp) ** 2
    return -mu * np.sum(kp**4) + 0j, abs(mu) * np.sum(kp**4)


def sym_general(k, L, coeffs):
    kp = kappa(k, L)
    lam = sum(a * np.sum((1j * kp) ** j) for j, a in enumerate(coeffs))
    mag = sum(abs(a) * np.sum(np.abs(kp) ** j) for j, a in enumerate(coeffs))
    return complex(lam), float(mag)


def sym_sum(*pairs):
    return sum(p[0] for p in pairs), sum(p[1] for p in pairs)


# --------------------------------------------------------------------------- alias-free nonlinear oracle (dense, fine grid)


def band_limit(D, N, fraction):
    """documented retained band: |k_d| <= fraction*(N//2) - 1 (inclusive)"""
    c = fraction * (N // 2) - 1
    return int(math.floor(c + 1e-12)) if c >= 0 else -1


class FineGrid:
    """
    Evaluate polynomial differential operators of band-limited fields with no aliasing:
    the truncated spectrum (|k_d| <= K) is zero-padded onto an M-point grid with M >= deg*2K+1... chosen by caller.
    Works on batches: arrays (B, C, N..N).
    """

    def __init__(self, D, N, L, K, M):
        self.D, self.N, self.L, self.K, self.M = D, N, L, K, M
        assert M % 2 == 1 and M > 2 * K
        self.ks = np.arange(-K, K + 1)
        self.axes = tuple(range(-D, 0))
        kk = np.fft.fftfreq(M, 1.0 / M)
        self.kap = [(2 * np.pi / L) * kk.reshape([M if a == d else 1 for a in range(D)]) for d in range(D)]

    def to_fine_hat(self, u):
        """real (.., N..N) -> normalised spectrum on the fine grid layout (.., M..M), truncated to |k_d|<=K"""
        D, N, M, K = self.D, self.N, self.M, self.K
        c = np.fft.fftn(u, axes=self.axes) / (N**D)
        out = np.zeros(u.shape[:-D] + (M,) * D, dtype=complex)
        if K < 0:
            return out
        src = np.ix_(*[self.ks % N] * D)
        dst = np.ix_(*[self.ks % M] * D)
        out[(Ellipsis,) + dst] = c[(Ellipsis,) + src]
        return out

    def phys(self, chat):
        return np.real(np.fft.ifftn(chat * (self.M**self.D), axes=self.axes))

    def hat(self, f):
        return np.fft.fftn(f, axes=self.axes) / (self.M**self.D)

    def d(self, chat, axis, order=1):
        return chat * (1j * self.kap[axis]) ** order

    def truncate_to_rfft(self, chat, N=None, K=None, scale=True):
        """fine-grid normalised spectrum -> library rfft layout (.., N.., N//2+1) unnormalised, only |k_d|<=K kept"""
        D, M = self.D, self.M
        N = self.N if N is None else N
        K = self.K if K is None else K
        out = np.zeros(chat.shape[:-D] + (N,) * (D - 1) + (N // 2 + 1,), dtype=complex)
        if K < 0:
            return out
        ks = np.arange(-K, K + 1)
        kl = np.arange(0, K + 1)
        src = np.ix_(*([ks % M] * (D - 1) + [kl % M]))
        dst = np.ix_(*([ks % N] * (D - 1) + [kl]))
        out[(Ellipsis,) + dst] = chat[(Ellipsis,) + src] * ((N**D) if scale else 1.0)
        return out


# --------------------------------------------------------------------------- self check


def selfcheck():
    # phi: Taylor vs closed form on the overlap, and the defining recurrence
    z = np.array([1.9999, -1.9999, 1.9999j, -1.4 + 1.4j, 0.3 - 1.97j])
    for n in (1, 2, 3):
        a = phi(n, z)
        p = np.exp(z)
        for m in range(1, n + 1):
            p = (p - 1.0 / math.factorial(m - 1)) / z
        assert np.max(np.abs(a - p) / np.abs(a)) < 1e-12, (n, a, p)
    zz = np.array([0.0, 1e-9, -3.0, 2j, -1e9, 20.0, -5 + 7j, 1e6j])
    for n in (1, 2):
        lhs = zz * phi(n + 1, zz) + 1.0 / math.factorial(n)
        assert np.max(np.abs(lhs - phi(n, zz)) / (1 + np.abs(phi(n, zz)))) < 1e-12
    assert abs(phi(1, np.array([0.0]))[0] - 1) < 1e-15 and abs(phi(3, np.array([0.0]))[0] - 1 / 6) < 1e-15
    # ETDRK reference converges with order p on u' = lam*u + u^2 (complex lam), exact solution known (Bernoulli)
    lam = -1.0 + 3.0j
    u0 = 0.3 + 0.1j
    T = 0.5

    def exact(t):
        # u' = lam u + u^2 -> v = 1/u: v' = -lam v - 1
        v0 = 1 / u0
        v = (v0 + 1 / lam) * np.exp(-lam * t) - 1 / lam
        return 1 / v

    for p, want in ((1, 1), (2, 2), (3, 3), (4, 4)):
        errs = []
        for n in (20, 40, 80):
            dt = T / n
            u = np.array([u0])
            for _ in range(n):
                u = etdrk_ref(p, np.array([lam * dt]), dt, lambda x: x * x, u)
            errs.append(abs(u[0] - exact(T)))
        rate = math.log2(errs[0] / errs[1]), math.log2(errs[1] / errs[2])
        assert abs(rate[1] - want) < 0.25, (p, rate, errs)
    # rfft layout vs numpy's rfftn on single modes (own layout rule agrees with an actual FFT)
    for D, N in ((1, 6), (2, 5), (2, 6), (3, 4)):
        X = grid(D, N, 1.0)
        W = rfft_wavenumbers(D, N)
        for k in halfspace(D, N):
            f = mode_field(k, X, 1.0, 1.0, 0.3)
            fh = np.fft.rfftn(f)
            nz = np.argwhere(np.abs(fh) > 1e-9)
            for idx in nz:
                kk = tuple(int(W[d][tuple(idx)]) for d in range(D))
                assert all((a - b) % N == 0 for a, b in zip(kk, k)) or all((a + b) % N == 0 for a, b in zip(kk, k)), (D, N, k, kk)
            c = dft_coefficient(f, k)
            want = 0.5 * np.exp(1j * 0.3) if not self_conjugate(k, N) else np.cos(0.3)
            assert abs(c - want) < 1e-12, (D, N, k, c, want)
    # fine-grid oracle: product of two modes lands on the sum / difference wavevectors, exactly
    D, N, L, K = 2, 9, 3.0, 2
    fg = FineGrid(D, N, L, K, 4 * K + 1)
    X = grid(D, N, L)
    u = mode_field((1, -2), X, L) + 0.5 * mode_field((2, 1), X, L, phase=0.4)
    ch = fg.to_fine_hat(u[None, None])
    sq = fg.hat(fg.phys(ch) ** 2)
    Xf = grid(D, fg.M, L)
    uf = mode_field((1, -2), Xf, L) + 0.5 * mode_field((2, 1), Xf, L, phase=0.4)
    assert np.max(np.abs(fg.phys(ch)[0, 0] - uf)) < 1e-13
    assert np.max(np.abs(fg.phys(sq)[0, 0] - uf**2)) < 1e-13
    return True


if __name__ == "__main__":
    selfcheck()
    print("ref selfcheck ok")

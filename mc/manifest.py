"""Regenerates /verif/MANIFEST.json from the table below:  /venv/bin/python -m mc.manifest"""
import json
import os

VERIF = os.path.dirname(os.path.dirname(os.path.abspath(__file__)))

ALL = ["C%02d" % i for i in range(1, 21)]

# property -> (technique, level text, level note, design ref)
CHECKS = {
    "C01": (
        "bounded exhaustive exploration: full real Fourier basis per configuration (linearity lift) + BFS over step histories, lock-step with closed-form symbols",
        "For every enumerated (class variant, D, N, L, dt) the real stepper is applied to every real Fourier basis function below Nyquist and to a "
        "superposition, and step_fourier to the all-ones spectrum; results are compared with the exact solution built from independently written "
        "symbols. Because the stepper is linear, the basis decides all band-limited states of that configuration. Step histories {dt,2dt,3dt,-dt} "
        "are explored breadth-first to depth 3 with diamond merging. Exhaustive inside the stated bounds on N and the finite L/dt/coefficient lattices.",
        "Trusted: numpy reference symbols in mc/ref.py, linearity of the implementation (probed by the superposition state). Bounds in evidence.bounds; "
        "amplifying configurations (Re(lambda*dt) > 3 on some stored mode) are skipped as ill-conditioned and listed.",
        "DESIGN.md §4 C01",
    ),
    "C02": (
        "bounded exhaustive exploration of a z-lattice x scheme orders x nonlinear-term alphabet, lock-step with a phi-function reference ETDRK model; conformance of every public stepper to that model",
        "(a) ETDRK1-4 integrators are built directly on a lattice of ~580 values z=lambda*dt (real axis [-1e9,20], imaginary axis, left-half-plane rays, "
        "z=0) x dt in {1,0.01,7} x {constant, alpha*u for 5 alphas, pointwise square} x 3 states and step_fourier is compared with the Cox-Matthews "
        "scheme on exact phi functions: since a step is a degree-p polynomial in alpha whose coefficients are products of the scheme coefficients, "
        "this pins every coefficient on every lattice point. (b) every public semi-linear stepper x order 0-4 x small grids x states is compared with "
        "the same reference scheme on the documented symbol and the public nonlinear term, so the stepper-level claim follows compositionally. "
        "(b') every semi-linear stepper class is also built with non-default dealiasing fraction and a coarse contour (M=6, r=0.8) and must equal the public "
        "ETDRK-p integrator assembled by hand with those values (the numerical options reach the integrator and the nonlinear term). "
        "(c) dt-halving ladders confirm order p for 8 families. Bounded model checking is the right level: coefficients are per-mode functions of z only.",
        "Trusted: mc/ref.py (phi functions, reference scheme; self-tested for convergence order on a scalar complex ODE), numpy. z between lattice "
        "points and grids beyond the bounds are not covered; (b) relies on C03 for the nonlinear terms themselves.",
        "DESIGN.md §4 C02",
    ),
    "C03": (
        "bounded exhaustive exploration: complete simplex lattice |a|<=d over the in-band Fourier basis (polynomial lift) + every out-of-band basis vector, lock-step with a fine-grid alias-free oracle",
        "Each built-in nonlinear term is a polynomial map of degree d<=3 of the band-truncated state; a polynomial of degree <=d is fixed by its values on "
        "the principal simplex lattice, which the harness enumerates completely over the real Fourier basis of the retained band (all channels), for "
        "every N of a contiguous range covering all residues mod 12 (1D) / mod 6 (2D) and D=1..3 where defined, both dealiasing fractions. For every "
        "out-of-band or Nyquist basis vector e the pair (v, v+e) must give the same output. The oracle evaluates the documented continuous operator on "
        "a zero-padded grid with 2dK+1 points (no aliasing possible) and truncates to the documented band, so values inside and zeros outside the band "
        "are both decided. Dense ternary lattices and full-band superpositions cross-probe the polynomial assumption.",
        "Trusted: the fine-grid oracle and band formula in mc/ref.py + mc/props/C03.py (numpy only). Bounds: N ranges in evidence.bounds (thorough: 1D 6..29, 2D 6..17, 3D 6..10, "
        "cubic 3D 8..11); lattices larger than 12k states (quick) / 700k states (thorough) are skipped (3D with K>=2 multi-channel); L and scale rotate through "
        "their lattices with N in quick; quadratic terms are also run with the 1/2 fraction so that the fraction argument is honoured.",
        "DESIGN.md §4 C03",
    ),
    "C04": (
        "bounded exhaustive exploration: every wavevector of every grid x amplitude/phase x scaling mode x indexing; every grid delta for the round trip",
        "Every wavevector k of the N^D grid (all sign combinations, DC, every Nyquist combination) is turned into a single-mode field on the library's "
        "grid and pushed through fft, the three scaling arrays, get_fourier_coefficients, derivative, make_incompressible, masks and mode blocks, for "
        "both meshgrid indexings; expected values come from explicit DFT sums and the documented semantics. ifft(fft(.)) is applied to every grid "
        "delta, which by linearity covers every real state. Exhaustive within the bounds on N (1D 2..16, 2D 2..8, 3D 2..5; thorough 24/12/8). A separate wide scan (every N up to 260, thorough 520, in 1D and the small / special ones in 2D) checks the integer-valued helpers: exact integer wavenumbers, every integer low-pass cutoff, oddball mask, scaling rule, coefficient read-off - this scan found the non-integer wavenumbers of N = 49, 98, 103, ... in x64 sessions.",
        "Trusted: explicit DFT sums and layout rule in mc/ref.py, numpy. N beyond the bounds is not covered.",
        "DESIGN.md §4 C04",
    ),
    "C05": (
        "bounded exhaustive exploration: full real Fourier basis below Nyquist x derivative orders x channel counts (linearity lift), all grid deltas for Poisson",
        "ex.derivative (orders 1-6, C in {1,2,3}), the Laplace (0,2,4,6) and gradient-inner-product (1,3,5) operators and the Poisson solver (2,4) are "
        "applied to every cos/sin basis function below Nyquist for D=1..3, odd and even N, four domain extents, and compared with analytic derivatives "
        "and symbols; the Poisson equation is additionally verified on every grid delta with an independent numpy operator. Linearity makes the basis "
        "decide every Nyquist-free trigonometric polynomial of a configuration.",
        "Trusted: analytic derivatives of cosines, numpy FFT for the independent Poisson residual. Bounds on N and the L lattice.",
        "DESIGN.md §4 C05",
    ),
    "C06": (
        "bounded exhaustive exploration of the program space: all valid compositions of {filter_jit, vmap, rollout(n), repeat(n)} up to depth 3 per stepper, against an eager reference interpreter; full product of batched constructor parameters",
        "For every catalogue stepper all valid wrapper compositions (depth <= 2 for all entries and <= 3 for six families in quick, <= 3 for all in thorough; "
        "n in {0,2}, batch 3) are executed on the real code and compared with a reference interpreter that evaluates the same program eagerly, one "
        "state at a time (this contains vmap(rollout) = rollout(vmap) with exchanged axes); perturbing one batch member must leave the others "
        "bit-identical. Every float-typed constructor parameter of every class (incl. dt, domain_extent, tuple entries) is batched with "
        "eqx.filter_vmap and traced under filter_jit and compared with steppers built one at a time; wrapped steppers (Repeated/Forced) are batched "
        "both under filter_vmap and by stacking the leaves of eagerly built wrappers. Histories of construction contexts {eager, filter_jit, filter_vmap, lax.scan body} are executed in fresh interpreters (all sequences of length <= 2, thorough 3): the numbers must not depend on the context in which a class was first used in the process.",
        "Trusted: the reference interpreter (Python loops over the real stepper). Tolerance 1e-10 relative for XLA re-association.",
        "DESIGN.md §4 C06",
    ),
    "C07": (
        "bounded exhaustive exploration: full Jacobians (all basis tangents and cotangents, linearity lift in the tangent space) on a lattice of base points, forward vs reverse vs Richardson-controlled finite differences; every constructor parameter differentiated through the constructor",
        "For every catalogue stepper x orders x small grids x base points {zero, constant, single mode, superposition, ternary} the complete Jacobian is "
        "computed by jacfwd and by jacrev and compared entrywise (the adjoint identity for every tangent/cotangent pair), every column is compared "
        "with central finite differences (tolerance from a Richardson pair), finiteness is required wherever the step is finite, and for linear "
        "steppers the Jacobian must equal the map applied to every grid delta. Rollouts of length 1-3 get the same treatment. Every float "
        "constructor parameter of every class (and dt) is differentiated through the constructor by jvp and by reverse mode and compared with "
        "central differences at several base points.",
        "Trusted: central finite differences with Richardson error control (h=1e-5). Bounded lattice of base points (derivatives are state dependent); 3D only for the 3D-only classes.",
        "DESIGN.md §4 C07",
    ),
    "C08": (
        "bounded exhaustive exploration: full symmetry-group enumeration (all N^D shifts, all D! axis permutations, all embedding axes) x state lattice, differential oracle on the real code",
        "For every catalogue entry (every public stepper class and flag variant) x order 0-4 x D x odd/even N the stepper is applied to ALL grid "
        "translations of smooth and white-noise-like states, to ALL axis permutations (with channel permutation for vector fields, signed for the "
        "vorticity pseudo-scalar) and to the 1D state embedded along EVERY axis, and compared with the transformed result / the 1D stepper. The group "
        "is enumerated completely; the state lattice is bounded because a full nonlinear step is a high-degree polynomial - the all-states claim "
        "rests on C03 (term-level) + C02 (scheme) compositionally. All translations of the white-noise-like state are also run through RepeatedStepper(stepper, 2).",
        "Trusted: numpy roll/transpose as the group action. Carve-outs in evidence.assumptions (Kolmogorov forcing, pseudo-scalar, a0 summed over axes).",
        "DESIGN.md §4 C08",
    ),
    "C09": (
        "bounded exhaustive exploration: BFS chains from ternary/basis/superposition state lattices for the mean; complete simplex lattice Lambda_3 for the cubic no-work forms; root x order x dt chains for equilibria",
        "(a) every listed conservation-form stepper x order x D x odd/even N is stepped 1..5 times from all 3^N ternary states (smallest 1D grids), "
        "every real Fourier basis function incl. Nyquist/out-of-band modes, and superpositions; the per-channel mean must not move in any visited "
        "state; the k=0 coefficient of every conservation-form term vanishes on the simplex lattice of the basis (polynomial lift => all states). "
        "(b) <u,N(u)>, <psi,N(omega)>, <omega,N(omega)> are cubic forms evaluated on the complete lattice Lambda_3 of the basis up to one mode beyond "
        "the documented band (=> all band-limited states, and a too-wide band is caught; in 3D the rotational form uses Lambda_3 inside the band and Lambda_2 on the extended band). (c) every constant root of the reaction/convection "
        "right-hand sides x orders 1-4 x dt x 4-step chains must be a fixed point.",
        "Trusted: closed-form roots, own solenoidal projector. Carve-outs forced by the mathematics are listed in evidence.assumptions (forms that "
        "conserve the mean, divergence-free states for the 3D forms, drag=0).",
        "DESIGN.md §4 C09",
    ),
    "C10": (
        "bounded exhaustive exploration: full vector Fourier basis for the linear projections, simplex lattice Lambda_2 for the quadratic convection term, BFS chains for the steppers",
        "Leray and make_incompressible are applied to every (Nyquist-free basis function x channel) for D=2,3, odd/even N and L in {1, 2pi, 0.5}: value "
        "against an own projector, zero spectral divergence, idempotence, identity on an independently built divergence-free basis, mutual agreement. "
        "The divergence of ProjectedConvection3d's output is a quadratic map that vanishes on Lambda_2 of the retained-band vector basis and on v+e for "
        "every out-of-band/Nyquist vector e, hence for every input. NavierStokesVelocity and KolmogorovFlowVelocity are chained 5 steps from "
        "divergence-free states for orders 1-4 and a parameter lattice with the divergence checked in every visited state.",
        "Trusted: own wavenumber layout and projector (numpy). Bounds on N.",
        "DESIGN.md §4 C10",
    ),
    "C11": (
        "bounded exhaustive exploration: the complete operator matrix from all grid deltas (linearity lift), SVD / Gram-matrix oracles",
        "For every linear stepper variant with non-amplifying coefficients, D=1..3, odd/even N, three domain extents and dt up to 1e6, the stepper is "
        "applied to every grid delta, giving the full matrix of the map on ALL real states (white noise and Nyquist content included). ||M||_2<=1, the "
        "mode-by-mode bound by e^{Re lambda dt}, strict damping off the constants, isometry of advection/dispersion on odd grids and on the Nyquist-free "
        "subspace, conservation of the independently built wave energy form, and repeat(S,n)=M^n for n up to 64 are then decided by linear algebra.",
        "Trusted: numpy SVD, reference symbols (mc/ref.py). Bounds on N (matrix sizes up to 125x125 in 3D) and the L/dt/coefficient lattices.",
        "DESIGN.md §4 C11",
    ),
    "C12": (
        "bounded exhaustive exploration: product of forcing parameters x orders x dt with BFS chains from rest, lock-step with the laminar-solution model; option product for ForcedStepper",
        "The three Kolmogorov-type steppers are started from rest for every (L incl. L != 2pi, odd/even N, injection mode, scale, viscosity/drag, "
        "order 1-4, dt) of a lattice (full product in thorough, deterministically thinned in quick) and stepped 1..4 times; every visited state is "
        "compared with the laminar solution f(e^{sigma t}-1)/sigma of the documented equation and decomposed (own FFT) into channel, direction, "
        "wavenumber, amplitude and phase, each with its own signature. ETDRK integrates the constant forcing exactly, so equality is to rounding. "
        "ForcedStepper is compared with base(u+dt f) for 8 base steppers x states x forcings x 3 entry points. ForcedStepper around RepeatedStepper and around nested RepeatedSteppers is compared with the naive loop on u + T*f.",
        "Trusted: the closed-form laminar solution. Runs whose accumulated shear*time exceeds 4 are skipped as ill-conditioned (inviscid shear amplifies rounding noise).",
        "DESIGN.md §4 C12",
    ),
    "C13": (
        "bounded exhaustive exploration of interface pairs/triples x D x N x orders x flags x rescalings; differential comparison of the real code under an independently written argument conversion",
        "All (specific, generic) pairs of the stepper overview, the (general, normalized, difficulty) triples of all five generic families and three "
        "rescalings that keep the non-dimensional groups fixed are stepped on the same states for D=1..3, odd/even N, orders 0-4 and all flag "
        "combinations; the argument conversions (a_j dt/L^j, N^j 2^(j-1) D, M N D, ...) are re-implemented in the harness. The pure-Python "
        "conversion functions are checked against the formulas and as mutual inverses on a lattice of tuples.",
        "Trusted: the documented conversion formulas as re-implemented in mc/props/C13.py. a0 is divided by D (documented axis sum); SwiftHohenberg in 1D only.",
        "DESIGN.md §4 C13",
    ),
    "C14": (
        "bounded exhaustive exploration of the option product, lock-step with a plain-loop reference model",
        "Every (n, include_init, takes_aux, constant_aux, pytree shape, aux shape) combination up to the bound, every window (T, sub_len), "
        "every (inner stepper family incl. 2D/3D, order, n_sub from 0, entry point, Nyquist-free and - for even-order inner steppers - white-noise-like states) is "
        "executed on the real lax.scan code and compared entry by entry with a "
        "Python-loop model; integer bookkeeping steppers make the comparison exact. Wrappers around wrappers are explored by an explicit-state BFS over "
        "wrapper-construction histories (alphabet RepeatedStepper x {0,1,2,3}, terminal ForcedStepper; model state = number of inner applications, "
        "so commuting histories merge and are diamond-checked on the real outputs; every entry point in every state against the naive loop). "
        "Exhaustive inside the bounds, which is the right level for scan bookkeeping whose behaviour depends only on these discrete options.",
        "Trusted: the reference loops (mc/props/C14.py), numpy, JAX itself. Bounds: n<=6 (10 thorough), T<=7 (11), n_sub<=4 (7), wrapper histories of depth 2 (3).",
        "DESIGN.md §4 C14",
    ),
    "C15": (
        "bounded exhaustive exploration: all (N_old, N_new) pairs x full Nyquist-free basis and all grid deltas (linearity lift); delta x grid-point table for the interpolant",
        "map_between_resolutions is run for every (N_old, N_new) pair of a range with all parity combinations and +-1, channel counts and both "
        "oddball_zero values on every Nyquist-free basis function (exact resampling, up-then-down identity) and on every grid delta (mean "
        "preservation for all states). FourierInterpolator is evaluated for every grid delta at every grid point (identity table => reproduces "
        "every state at its grid points) and for every basis function at off-grid, irrational, negative and beyond-domain query points against the "
        "analytic value, for both indexings and three domain extents.",
        "Trusted: analytic cosines, numpy. Bounds on N ranges and the finite query alphabet.",
        "DESIGN.md §4 C15",
    ),
    "C16": (
        "bounded exhaustive exploration: every metric function x D x N x C x L x (basis x basis) pair lattice x all band limits and all band partitions; explicit spectral-sum oracles",
        "All functions of exponax.metrics are evaluated on the (basis x basis) pair lattice with O(1) amplitudes (polarisation decides the quadratic MSE-type "
        "forms for all states), ternary and superposition states, C in {1,2,3}, D=1..3, odd/even N and three domain extents, and compared with explicit sums "
        "over the full complex spectrum: values, Parseval (spatial vs Fourier L2 family), resolution independence, L^D scaling, zero/positivity/symmetry/"
        "homogeneity axioms, channel additivity, H1 = plain + gradient aggregate, correlation range/value/+-1, mean_metric. Band-limited variants are "
        "checked for ALL pairs 0<=low<=high<=N//2 and ALL 2^(N//2) partitions of the band range into consecutive bands. The general norm / aggregator "
        "functions and the named Fourier / H1 metrics are additionally run over the full product of inner / outer exponents, modes, band limits and "
        "derivative orders against the documented formulas.",
        "Trusted: numpy FFT sums. Pair lattice thinned on the largest grids (stated in notes). Normalised variants with a vanishing reference (0/0) are outside the property and masked.",
        "DESIGN.md §4 C16",
    ),
    "C17": (
        "bounded exhaustive exploration: every wavevector of every grid as a single-mode field x options; all basis pairs for the quadratic power spectrum",
        "get_spectrum is run on a*cos(k.x+phase) for every wavevector of the grid (all sign combinations, corners outside the Nyquist sphere, DC, "
        "Nyquist) x 3 amplitude/phase pairs x power/amplitude x sum/average x 1-2 channels and compared with the documented bin floor(|k|+1/2), "
        "amplitude a, Parseval weight and per-bin stored-mode counts computed from an independent layout rule. Since the power spectrum is a "
        "quadratic form per bin, all basis pairs (thinned only on the largest grids, stated in notes) decide arbitrary states against an explicit per-mode sum.",
        "Trusted: own binning rule and per-mode sums (numpy). Bounds on N. Empty bins under 'average' (mean of an empty set) are outside the property and masked.",
        "DESIGN.md §4 C17",
    ),
    "C18": (
        "bounded exhaustive exploration of the option product: every generator x D x odd/even N x keys x all normalisation-flag combinations x parameter lattices x wrapper nestings of depth <= 2",
        "Every public generator and IC class is drawn for all 8 (zero_mean, std_one, max_one) combinations (valid: realised exactly; invalid: ValueError), "
        "offset/cutoff/limit/scale/exponent lattices, D=1..3, odd and even N and several keys; each draw is checked for shape (one channel per "
        "generated field), finiteness, bit-identical repetition with the same key, exact statistics, Fourier support (own FFT), power-law / diffusion "
        "shaping of the white noise of the same key, clamping limits reached, scale factors, member-wise key splitting of multi-channel wrappers, "
        "agreement of function form and sampled form, explicit formulas for the deterministic IC classes, and requested (non-default) amplitude / phase / "
        "value / position / variance ranges of the random generators.",
        "Trusted: numpy statistics/FFT and the re-implemented formulas. Contract is per draw (no distributional claims). Degenerate draws with zero variance are skipped.",
        "DESIGN.md §4 C18",
    ),
    "C19": (
        "bounded exhaustive exploration of a stiffness lattice x ETDRK orders x nonlinear terms and of every public stepper x orders, executed in separate precision sessions (float32, x64, x64 enabled after the import) whose result tables are joined",
        "Each work unit spawns a default (float32) and an x64 interpreter. Both enumerate ETDRK orders 0-4 on z=lambda*dt from 0 down to -1e15 (real axis, "
        "imaginary axis and left-half-plane rays) with three user-defined nonlinear terms, an O(1) state and the zero state, and every catalogue stepper x "
        "order 0-4 x smooth states + zero state. The parent checks finiteness, that results carry the session's default precision (real and Fourier "
        "space), zero -> zero for unforced equations, agreement of the two sessions within 400*eps32*(1+|lambda dt|)*scale, and - in the x64 session - "
        "that the step does not lose double precision in its transforms (cross-check with numpy float64 FFTs) and that every precomputed array leaf of the "
        "stepper carries the session precision. A wide N scan requires all discrete decisions (wavenumber layout, dealiasing / low-pass / oddball masks, "
        "scaling classes) to be identical in both sessions. A third session imports the library in single precision and enables x64 afterwards; its "
        "results must equal those of the x64 session (nothing frozen at import time). The late-x64 session first uses the same configuration in single precision (history: f32 use, enable x64, audited run), so per-resolution caches filled in single precision are caught.",
        "Trusted: numpy FFT for the x64 cross-check. For |z| > 1e3 only finiteness/dtype are claimed (single-precision rounding of z itself changes the phase). "
        "Double-precision fidelity of step_fourier is decided by C02.",
        "DESIGN.md §4 C19",
    ),
    "C20": (
        "bounded exhaustive exploration of the discrete option space: every exported stepper class x D x all single-edit shape mutations; every guard x argument combination",
        "Every public stepper class (catalogue variants plus a run-time enumeration of the package exports with default arguments, so a new class is "
        "covered automatically), RepeatedStepper and Poisson are called with the correct shape (must be accepted, same shape out) and with ALL "
        "single-edit mutations of it (channel +-1, dropped/extra/leading/trailing axes, every axis length +-1, ...), each of which must raise "
        "ValueError. Dimension guards, derivative-order parity guards for orders 0..7, channel-count guards and the documented invalid option "
        "combinations of generators, metrics and window utilities are enumerated as a full product.",
        "Trusted: nothing beyond Python exception semantics. The rejection must be a ValueError; another exception type is reported as a violation.",
        "DESIGN.md §4 C20",
    ),
}

NOT_YET = "no harness"


def build():
    checks = []
    for pid in ALL:
        if pid not in CHECKS:
            continue
        tech, text, note, ref = CHECKS[pid]
        checks.append(
            {
                "property_id": pid,
                "quick_cmd": f"./check {pid} --tier quick",
                "thorough_cmd": f"./check {pid} --tier thorough",
                "evidence_file": f"/verif/evidence/{pid}.json",
                "replay_cmd_template": f"./check {pid} --replay {{path}}",
                "engine": "mc-explorer",
                "level_claimed": {"category": "model_checking", "text": text, "design_ref": ref},
                "level_note": note,
                "technique": tech,
            }
        )
    m = {
        "version": 1,
        "setup_cmd": "/venv/bin/python -m mc.selftest",
        "hooks": {
            "guard": "EXPONAX_VERIF",
            "enable": "no source hooks are needed: checks import /repo's working tree (editable install in /venv) and observe public API only; "
                      "EXPONAX_VERIF=1 is exported by ./check for completeness",
            "baseline_off_cmd": "cd /repo && /venv/bin/python -m pytest -q -p no:cacheprovider --timeout=900 -n 8",
            "source_commits": [],
            "add_only": True,
        },
        "engines": [
            {
                "name": "mc-explorer",
                "path": "/verif/mc",
                "serves_properties": [c["property_id"] for c in checks],
                "kind_free_text": "hand-written explicit-state bounded exhaustive explorer (Python, runs the real JAX code in lock-step with "
                                  "numpy reference models; BFS with canonical model-state keys and diamond checks for histories; full "
                                  "basis / simplex-lattice / option-product enumeration for wide shallow spaces)",
            }
        ],
        "checks": checks,
        "notes": "All checks: exit 0 = held on everything explored; exit 1 + 'VIOLATION property=<id> replay=<path>'. "
                 "Known findings live in /verif/known_findings.txt. Seeded property-breaking changes used to validate the checks are in /verif/seeded/.",
        "not_applicable": [{"property_id": p, "reason": NOT_YET} for p in ALL if p not in CHECKS],
    }
    return m


if __name__ == "__main__":
    m = build()
    with open(os.path.join(VERIF, "MANIFEST.json"), "w") as f:
        json.dump(m, f, indent=1)
    print("MANIFEST.json written:", len(m["checks"]), "checks,", len(m["not_applicable"]), "not applicable")

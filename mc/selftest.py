"""
setup_cmd: nothing needs building (pure Python on /venv).  This self-test makes sure the explorer
itself works: it explores a toy transition system exhaustively, checks the state/transition counts
against a closed form, and verifies that a seeded bug in the toy implementation is reported.
It also cross-validates the numpy reference models against each other (mc.ref.selfcheck).
"""
import os
import sys

sys.path.insert(0, os.path.dirname(os.path.dirname(os.path.abspath(__file__))))

from mc.core import Rec, bfs  # noqa: E402


def toy(buggy: bool):
    # model: a counter modulo 7 with ops +1, +2, *2 ; implementation: same, but (if buggy) +2 is wrong in state 5
    rec = Rec("TOY", {"name": "toy"})

    def step(op, key, iv, mv):
        nm = {"inc": (mv + 1) % 7, "inc2": (mv + 2) % 7, "dbl": (mv * 2) % 7}[op]
        ni = {"inc": (iv + 1) % 7, "inc2": (iv + 2) % 7, "dbl": (iv * 2) % 7}[op]
        if buggy and op == "inc2" and iv == 5:
            ni = 1
        return nm, ni, nm

    def inv(key, iv, mv, trace):
        rec.check(iv == mv, "TOY/mismatch", "impl != model", trace=list(trace))

    n, depth = bfs(rec, [(0, 0, 0)], ["inc", "inc2", "dbl"], step, inv, depth=10, same=lambda a, b: a == b, label="TOY")
    return rec, n


def main():
    rec, n = toy(False)
    assert n == 7 and rec.states == 7 and rec.transitions == 21 and not rec.viol, (n, rec.states, rec.transitions, rec.viol)
    rec, n = toy(True)
    assert "TOY/mismatch" in rec.viol, "seeded toy bug not detected"
    # shortest counterexample first (BFS): 0 -inc2-> 2 -inc-> 3 -inc2-> 5 -inc2-> ... needs state 5: shortest path has length 3
    assert len(rec.viol["TOY/mismatch"]["detail"]["trace"]) <= 4, rec.viol
    try:
        from mc import ref
    except ImportError:
        ref = None
    if ref is not None and hasattr(ref, "selfcheck"):
        ref.selfcheck()
    print("selftest ok: explorer (toy system 7 states / 21 transitions, seeded bug found), reference models cross-validated")


if __name__ == "__main__":
    main()

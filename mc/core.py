"""
Core of the bounded exhaustive explorer used by every property harness.

* Rec        - per-work-unit recorder: states / transitions / traces counters, violations
               (keyed by a *signature*), written-out samples, distinct outcomes, worst margin.
* bfs        - explicit-state breadth-first exploration of a transition system whose transitions
               call the real implementation and a reference model in lock-step; states are
               de-duplicated on a canonical key derived from the *model* state; two paths that
               reach the same key must carry the same implementation value (diamond check).
* run_check  - fan the work units of one property out over a spawn-pool, aggregate, match
               violations against known_findings.txt, write evidence + replay files, print the
               VIOLATION / KNOWN-FINDING lines and return the exit code.

Nothing here imports exponax; harness modules (mc/props/Cxx.py) do.
"""

from __future__ import annotations

import collections
import fnmatch
import hashlib
import importlib
import json
import os
import sys
import time
import traceback

VERIF = os.path.dirname(os.path.dirname(os.path.abspath(__file__)))
# the two overrides exist for tools/matrix.py (runs against seeded changes must not clobber the committed evidence); registered commands never set them
EVIDENCE_DIR = os.environ.get("VERIF_EVIDENCE_DIR") or os.path.join(VERIF, "evidence")
REPLAY_DIR = os.environ.get("VERIF_REPLAY_DIR") or os.path.join(VERIF, "replays")
KNOWN_FINDINGS = os.path.join(VERIF, "known_findings.txt")

MAX_SAMPLES = 6
MAX_OUTCOMES = 200000


def _jsonable(x):
    import numpy as np

    if isinstance(x, dict):
        return {str(k): _jsonable(v) for k, v in x.items()}
    if isinstance(x, (list, tuple, set, frozenset)):
        return [_jsonable(v) for v in x]
    if isinstance(x, (np.integer,)):
        return int(x)
    if isinstance(x, (np.floating,)):
        return float(x)
    if isinstance(x, (np.bool_,)):
        return bool(x)
    if isinstance(x, complex) or isinstance(x, np.complexfloating):
        return [float(x.real), float(x.imag)]
    if isinstance(x, np.ndarray):
        if x.size > 64:
            return {"shape": list(x.shape), "head": _jsonable(x.ravel()[:16].tolist())}
        return _jsonable(x.tolist())
    if isinstance(x, (str, int, float, bool)) or x is None:
        if isinstance(x, float) and (x != x or x in (float("inf"), float("-inf"))):
            return repr(x)
        return x
    if hasattr(x, "shape") and hasattr(x, "dtype"):
        return _jsonable(np.asarray(x))
    return repr(x)


class Rec:
    """Recorder of one work unit (lives in the worker, travels back as a dict)."""

    def __init__(self, prop: str, unit: dict):
        self.prop = prop
        self.unit = unit
        self.states = 0
        self.transitions = 0
        self.traces = 0
        self.evals = 0
        self.diamonds = 0
        self.outcomes = set()
        self.dims = collections.defaultdict(set)
        self.viol = collections.OrderedDict()  # sig -> dict
        self.samples = []
        self.worst = 0.0
        self.worst_at = None
        self.notes = []

    # -- coverage -----------------------------------------------------------
    def dim(self, name, value):
        s = self.dims[name]
        if len(s) < 400:
            s.add(value if isinstance(value, (int, str, bool)) else repr(value))

    def count(self, states=0, transitions=0, traces=0, evals=0):
        self.states += states
        self.transitions += transitions
        self.traces += traces
        self.evals += evals

    def outcome(self, *vals):
        """register an observed outcome (rounded) - used for the vacuity guard"""
        if len(self.outcomes) >= MAX_OUTCOMES:
            return
        h = hashlib.blake2b(digest_size=8)
        for v in vals:
            if isinstance(v, float):
                v = float("%.9e" % v)
            h.update(repr(v).encode())
        self.outcomes.add(h.hexdigest())

    def outcome_array(self, arr):
        import numpy as np

        a = np.asarray(arr)
        if a.dtype.kind == "c":
            a = np.stack([a.real, a.imag])
        if a.dtype.kind == "f":
            with np.errstate(all="ignore"):
                s = np.where(np.isfinite(a), a, 0.0)
                scale = float(np.max(np.abs(s))) if s.size else 0.0
                q = np.round(s / (scale if scale > 0 else 1.0), 7)
            self.outcome(a.shape, "%.6e" % scale, hashlib.blake2b(q.tobytes(), digest_size=8).hexdigest())
        else:
            self.outcome(a.shape, hashlib.blake2b(a.tobytes(), digest_size=8).hexdigest())

    def sample(self, obj):
        if len(self.samples) < MAX_SAMPLES:
            self.samples.append(_jsonable(obj))

    # -- oracles ------------------------------------------------------------
    def fail(self, sig: str, msg: str, **detail):
        if sig in self.viol:
            self.viol[sig]["count"] += 1
            return
        self.viol[sig] = {
            "sig": sig,
            "msg": msg,
            "detail": _jsonable(detail),
            "count": 1,
            "unit": _jsonable(self.unit),
        }

    def check(self, ok, sig: str, msg: str, **detail) -> bool:
        self.evals += 1
        if not ok:
            self.fail(sig, msg, **detail)
        return bool(ok)

    def close(self, err, tol, sig: str, msg: str, **detail) -> bool:
        """err <= tol with margin tracking; NaN/inf err is a failure"""
        self.evals += 1
        err = float(err)
        tol = float(tol)
        ok = err <= tol  # False for NaN
        if ok and tol > 0:
            m = err / tol
            if m > self.worst:
                self.worst = m
                self.worst_at = sig
        if not ok:
            self.fail(sig, msg, err=err, tol=tol, **detail)
        return ok

    def result(self):
        return {
            "states": self.states,
            "transitions": self.transitions,
            "traces": self.traces,
            "evals": self.evals,
            "diamonds": self.diamonds,
            "outcomes": sorted(self.outcomes),
            "dims": {k: sorted(v, key=repr) for k, v in self.dims.items()},
            "viol": list(self.viol.values()),
            "samples": self.samples,
            "worst": self.worst,
            "worst_at": self.worst_at,
            "notes": self.notes,
        }


# ---------------------------------------------------------------------------
# explicit-state BFS over a transition system (implementation + model in lock-step)
# ---------------------------------------------------------------------------


def bfs(
    rec: Rec,
    inits,
    ops,
    step,
    invariant,
    depth: int,
    same=None,
    label="",
):
    """
    inits      iterable of (key, impl_value, model_value)
    ops        list of operation labels (simplest first)
    step       (op, key, impl_value, model_value) -> None (op not enabled) or
               (new_key, new_impl_value, new_model_value); calls the REAL code for impl_value
    invariant  (key, impl_value, model_value, trace) -> None; uses rec.close / rec.check
    same       (impl_a, impl_b) -> bool : diamond check when a key is reached a second time
    Keys are canonical forms of the *model* state. Every explored trace is executed on the
    implementation, so traces validated == transitions taken.
    """
    seen = {}
    frontier = collections.deque()
    for key, iv, mv in inits:
        if key in seen:
            continue
        seen[key] = iv
        rec.count(states=1)
        invariant(key, iv, mv, ())
        frontier.append((key, iv, mv, ()))
    maxdepth = 0
    while frontier:
        key, iv, mv, trace = frontier.popleft()
        if len(trace) >= depth:
            continue
        for op in ops:
            nxt = step(op, key, iv, mv)
            if nxt is None:
                continue
            nkey, niv, nmv = nxt
            ntrace = trace + (op,)
            rec.count(transitions=1, traces=1)
            invariant(nkey, niv, nmv, ntrace)
            if nkey in seen:
                rec.diamonds += 1
                if same is not None and not same(seen[nkey], niv):
                    rec.fail(
                        f"{label}/diamond",
                        "two operation sequences with the same model state gave different implementation states",
                        key=repr(nkey),
                        trace=list(map(repr, ntrace)),
                    )
                continue
            seen[nkey] = niv
            rec.count(states=1)
            maxdepth = max(maxdepth, len(ntrace))
            frontier.append((nkey, niv, nmv, ntrace))
    return len(seen), maxdepth


# ---------------------------------------------------------------------------
# known findings
# ---------------------------------------------------------------------------


def load_known_findings(prop: str):
    out = []
    if not os.path.exists(KNOWN_FINDINGS):
        return out
    for line in open(KNOWN_FINDINGS):
        line = line.strip()
        if not line.startswith("finding:"):
            continue  # 'fixed:' lines and comments suppress nothing
        body = line[len("finding:"):].strip()
        fields = dict(tok.split("=", 1) for tok in body.split() if "=" in tok and tok.split("=")[0] in ("property", "key"))
        if fields.get("property") != prop or "key" not in fields:
            continue
        what = body.split("key=" + fields["key"], 1)[1].strip()
        out.append((fields["key"], what))
    return out


# ---------------------------------------------------------------------------
# worker side
# ---------------------------------------------------------------------------


def _worker_init(x64: bool, counter=None):
    # pin every worker to one core BEFORE jax is imported: XLA sizes its thread pools from the schedulable CPUs,
    # and 16 workers x 16 XLA threads oversubscribe the machine badly otherwise
    if counter is not None and hasattr(os, "sched_setaffinity"):
        try:
            cpus = sorted(os.sched_getaffinity(0))
            with counter.get_lock():
                i = counter.value
                counter.value += 1
            os.sched_setaffinity(0, {cpus[i % len(cpus)]})
        except Exception:
            pass
    if counter is not None:
        try:  # workers must not outlive a killed parent (orphans would keep burning CPU and memory): PR_SET_PDEATHSIG = 1
            import ctypes
            import signal

            ctypes.CDLL("libc.so.6", use_errno=True).prctl(1, signal.SIGKILL)
        except Exception:
            pass
    os.environ.setdefault("JAX_PLATFORMS", "cpu")
    os.environ["XLA_FLAGS"] = (
        os.environ.get("XLA_FLAGS", "")
        + " --xla_cpu_multi_thread_eigen=false intra_op_parallelism_threads=1"
    )
    os.environ.setdefault("OMP_NUM_THREADS", "1")
    os.environ.setdefault("OPENBLAS_NUM_THREADS", "1")
    os.environ.setdefault("MKL_NUM_THREADS", "1")
    os.environ["EXPONAX_VERIF"] = "1"
    if x64:
        os.environ["JAX_ENABLE_X64"] = "1"
    import warnings

    warnings.filterwarnings("ignore")
    _maybe_start_coverage()
    _maybe_start_param_audit()


def _maybe_start_param_audit():
    """debugging aid (tools/param_audit.sh): VERIF_PARAM_AUDIT=<dir> records, per public class / function of exponax, which keyword values the
    exploration passes, so that options only ever exercised at their default value can be found"""
    d = os.environ.get("VERIF_PARAM_AUDIT")
    if not d:
        return
    import collections
    import functools
    import inspect
    import multiprocessing.util as mpu

    import exponax as ex

    os.makedirs(d, exist_ok=True)
    seen = collections.defaultdict(lambda: collections.defaultdict(set))

    def short(v):
        try:
            if hasattr(v, "shape") and getattr(v, "ndim", 0) > 0:
                return f"<array{tuple(v.shape)}>"
            return repr(v)[:40]
        except Exception:
            return "<?>"

    def record(name, sig, args, kwargs):
        try:
            ba = sig.bind(*args, **kwargs)
        except Exception:
            return
        for n, v in ba.arguments.items():
            if n == "self":
                continue
            dflt = sig.parameters[n].default
            if dflt is inspect._empty:
                seen[name][n].add(short(v))
            else:
                seen[name][n].add("<default>" if short(v) == short(dflt) else short(v))
        for n, prm in sig.parameters.items():
            if n not in ba.arguments and prm.default is not inspect._empty:
                seen[name][n].add("<default>")

    def wrap_class(cls):
        if "__init__" not in cls.__dict__:
            return
        o = cls.__dict__["__init__"]
        sig = inspect.signature(o)

        @functools.wraps(o)
        def init(self, *a, **k):
            if type(self) is cls:
                record(cls.__module__.replace("exponax.", "") + "." + cls.__name__, sig, (self,) + a, k)
            return o(self, *a, **k)

        try:
            cls.__init__ = init
        except Exception:
            pass

    def wrap_fun(mod, nm, f):
        sig = inspect.signature(f)

        @functools.wraps(f)
        def g(*a, **k):
            record(mod.__name__.replace("exponax.", "") + "." + nm, sig, a, k)
            return f(*a, **k)

        setattr(mod, nm, g)

    mods = [ex, ex.stepper, ex.stepper.generic, ex.stepper.reaction, ex.nonlin_fun, ex.ic, ex.metrics, ex.etdrk, ex.spectral]
    done = set()
    for mod in mods:
        for nm in getattr(mod, "__all__", []):
            obj = getattr(mod, nm, None)
            if id(obj) in done:
                continue
            if isinstance(obj, type):
                done.add(id(obj))
                wrap_class(obj)
            elif inspect.isfunction(obj) and mod in (ex, ex.metrics, ex.spectral):
                done.add(id(obj))
                wrap_fun(mod, nm, obj)

    def _save():
        out = {c: {n: sorted(v)[:12] for n, v in ps.items()} for c, ps in seen.items()}
        with open(os.path.join(d, f"audit.{os.getpid()}.json"), "w") as fh:
            json.dump(out, fh)

    mpu.Finalize(None, _save, exitpriority=90)
    import atexit

    atexit.register(_save)


def _maybe_start_coverage():
    """debugging aid (tools/cov.sh): VERIF_COV=<dir> records which lines of exponax the exploration executes"""
    d = os.environ.get("VERIF_COV")
    if not d:
        return
    import coverage
    import multiprocessing.util as mpu

    os.makedirs(d, exist_ok=True)
    cov = coverage.Coverage(data_file=os.path.join(d, "cov"), data_suffix=True, source_pkgs=["exponax"])
    cov.start()

    def _save():
        cov.stop()
        cov.save()

    mpu.Finalize(None, _save, exitpriority=100)
    import atexit

    atexit.register(_save)


def _run_unit(args):
    prop, unit = args
    t0 = time.time()
    rec = Rec(prop, unit)
    try:
        mod = importlib.import_module(f"mc.props.{prop}")
        mod.run_unit(unit, rec)
    except Exception as e:  # a crash inside the real code is a behaviour, not a harness licence to pass
        tb = traceback.format_exc()
        rec.fail(
            f"{prop}/{unit.get('name', 'unit')}/crash/{type(e).__name__}",
            f"unexpected exception while exploring: {e!r}"[:400],
            traceback=tb[-3000:],
        )
    res = rec.result()
    res["wall"] = time.time() - t0
    res["name"] = unit.get("name", "unit")
    return res


def run_units(prop: str, units, jobs: int, x64: bool = True, progress=True):
    import concurrent.futures as cf
    import multiprocessing as mp

    results = []
    if jobs <= 1 or len(units) <= 1:
        _worker_init(x64)
        for u in units:
            results.append(_run_unit((prop, u)))
        return results
    from concurrent.futures.process import BrokenProcessPool

    ctx = mp.get_context("spawn")
    pending = list(range(len(units)))
    workers = min(jobs, len(units))
    done = 0
    attempts = 0
    while pending:
        counter = ctx.Value("i", 0)
        finished = set()
        try:
            with cf.ProcessPoolExecutor(max_workers=workers, mp_context=ctx, initializer=_worker_init, initargs=(x64, counter)) as ex:
                futs = {ex.submit(_run_unit, (prop, units[i])): i for i in pending}
                for f in cf.as_completed(futs):
                    results.append(f.result())
                    finished.add(futs[f])
                    done += 1
                    if progress and (done % max(1, len(units) // 10) == 0 or done == len(units)):
                        print(f"  [{prop}] {done}/{len(units)} units", file=sys.stderr, flush=True)
            pending = []
        except BrokenProcessPool:
            # a worker was killed from outside (typically the kernel's OOM killer on a busy machine): this says nothing about the property.
            # Keep what finished, run the rest again with half as many workers; give up (harness error, not a verdict) after three such failures.
            pending = [i for i in pending if i not in finished]
            attempts += 1
            if attempts > 3:
                raise
            workers = max(1, workers // 2)
            print(f"  [{prop}] a worker process was killed; re-running {len(pending)} unfinished units with {workers} workers", file=sys.stderr, flush=True)
    return results


# ---------------------------------------------------------------------------
# main driver for one property
# ---------------------------------------------------------------------------


def run_check(prop: str, tier: str, seed: int, jobs: int, replay: str | None = None) -> int:
    t0 = time.time()
    os.environ["EXPONAX_VERIF"] = "1"
    mod = importlib.import_module(f"mc.props.{prop}")
    x64 = getattr(mod, "X64", True)

    if replay:
        data = json.load(open(replay))
        units = [data["unit"]]
        want = data["sig"]
        res = run_units(prop, units, 1, x64=x64, progress=False)
        hit = [v for r in res for v in r["viol"] if v["sig"] == want]
        others = [v for r in res for v in r["viol"] if v["sig"] != want]
        if hit:
            print(f"REPLAY reproduced: {want}: {hit[0]['msg']}")
            print(json.dumps(hit[0]["detail"], indent=1)[:2000])
            print(f"VIOLATION property={prop} replay={replay}")
            return 1
        print(f"REPLAY did not reproduce {want}; other violations in the unit: {[v['sig'] for v in others]}")
        return 0

    units = list(mod.units(tier, seed))
    for i, u in enumerate(units):
        u.setdefault("name", f"u{i}")
        u.setdefault("tier", tier)
        u.setdefault("seed", seed)
    only = os.environ.get("VERIF_ONLY")
    if only:  # debugging aid: restrict to units whose name contains the substring (never used by registered commands)
        units = [u for u in units if only in u["name"]]
    # heavy units first for better packing
    units.sort(key=lambda u: -float(u.get("cost", 1.0)))
    print(f"[{prop}] tier={tier} seed={seed} units={len(units)} jobs={jobs}", file=sys.stderr, flush=True)
    results = run_units(prop, units, jobs, x64=x64)

    if os.environ.get("VERIF_TIMING"):
        for r in sorted(results, key=lambda r: -r["wall"])[:12]:
            print(f"  timing {r['wall']:7.1f}s {r['name']}", file=sys.stderr)
    agg = dict(states=0, transitions=0, traces=0, evals=0, diamonds=0)
    outcomes = set()
    dims = collections.defaultdict(set)
    samples = []
    viol = collections.OrderedDict()
    worst, worst_at = 0.0, None
    notes = []
    for r in sorted(results, key=lambda r: r["name"]):
        for k in agg:
            agg[k] += r[k]
        outcomes.update(r["outcomes"])
        for k, v in r["dims"].items():
            dims[k].update(map(repr, v))
        for s in r["samples"]:
            if len(samples) < MAX_SAMPLES:
                samples.append(s)
        for v in r["viol"]:
            if v["sig"] in viol:
                viol[v["sig"]]["count"] += v["count"]
            else:
                viol[v["sig"]] = v
        if r["worst"] > worst:
            worst, worst_at = r["worst"], r["worst_at"]
        notes.extend(r["notes"])

    # vacuity guards
    harness_errors = []
    if agg["states"] < 1 or agg["transitions"] < 1:
        harness_errors.append("vacuous: no states/transitions explored")
    if len(outcomes) < 2:
        harness_errors.append(f"vacuous: only {len(outcomes)} distinct outcome(s) observed")

    known = load_known_findings(prop)
    known_hit, new = [], []
    for sig, v in viol.items():
        m = [k for k in known if fnmatch.fnmatchcase(sig, k[0])]
        if m:
            known_hit.append((sig, v, m[0]))
        else:
            new.append((sig, v))

    os.makedirs(EVIDENCE_DIR, exist_ok=True)
    replay_paths = {}
    if new or known_hit:
        os.makedirs(os.path.join(REPLAY_DIR, prop), exist_ok=True)
    for sig, v in list(new) + [(s, v) for s, v, _ in known_hit]:
        h = hashlib.blake2b(sig.encode(), digest_size=6).hexdigest()
        path = os.path.join(REPLAY_DIR, prop, f"{h}.json")
        with open(path, "w") as f:
            json.dump({"property": prop, "sig": sig, "msg": v["msg"], "detail": v["detail"], "unit": v["unit"],
                       "how": f"cd /verif && ./check {prop} --replay {path}"}, f, indent=1)
        replay_paths[sig] = path

    bounds = getattr(mod, "bounds", lambda tier: {})(tier)
    wall = time.time() - t0
    try:
        import subprocess

        import exponax

        root = os.path.dirname(os.path.dirname(os.path.abspath(exponax.__file__)))
        head = subprocess.run(["git", "-C", root, "rev-parse", "--short", "HEAD"], capture_output=True, text=True).stdout.strip()
        dirty = bool(subprocess.run(["git", "-C", root, "status", "--porcelain", "--", "exponax"], capture_output=True, text=True).stdout.strip())
        tree = {"exponax_imported_from": root, "git_head": head, "working_tree_modified": dirty}
    except Exception as e:  # provenance is informational only
        tree = {"error": repr(e)[:100]}
    ev = {
        "property_id": prop,
        "tier": tier,
        "seed": seed,
        "level": "model_checking",
        "coverage": {
            "states": agg["states"],
            "transitions": agg["transitions"],
            "traces_validated_against_impl": agg["traces"],
            "samples": samples if samples else [{"note": "no sample recorded"}],
            "evaluations": agg["evals"],
            "distinct_nontrivial": len(outcomes),
            "rule": getattr(mod, "RULE", "every enumerated case is distinct by construction; "
                            "distinct_nontrivial counts distinct observed implementation outcomes (hash of rounded values)"),
            "exhaustive": bool(getattr(mod, "EXHAUSTIVE", True)),
            "bounds": _jsonable(bounds),
            "tree_under_test": tree,
            "diamonds_merged": agg["diamonds"],
            "dimension_coverage": {k: (sorted(v)[:40] if len(v) <= 40 else {"count": len(v), "head": sorted(v)[:12]}) for k, v in dims.items()},
            "work_units": len(units),
            "worst_margin_err_over_tol": worst,
            "worst_margin_at": worst_at,
            "explanation": getattr(mod, "EXPLANATION", ""),
            "known_findings_matched": [s for s, _, _ in known_hit],
            "notes": notes[:20],
        },
        "assumptions": list(getattr(mod, "ASSUMPTIONS", [])),
        "wall_s": round(wall, 2),
        "violations": len(new),
    }
    with open(os.path.join(EVIDENCE_DIR, f"{prop}.json"), "w") as f:
        json.dump(ev, f, indent=1)

    print(
        f"[{prop}] states={agg['states']} transitions={agg['transitions']} traces={agg['traces']} "
        f"evaluations={agg['evals']} distinct_outcomes={len(outcomes)} diamonds={agg['diamonds']} "
        f"worst_margin={worst:.3g} wall={wall:.1f}s"
    )
    for sig, v, k in known_hit:
        print(f"KNOWN-FINDING: property={prop} {sig}: {k[1] or v['msg']}")
    rc = 0
    for sig, v in new:
        print(f"  violation {sig}: {v['msg']} (x{v['count']}) {json.dumps(v['detail'])[:300]}")
        print(f"VIOLATION property={prop} replay={replay_paths[sig]}")
        rc = 1
    for e in harness_errors:
        print(f"HARNESS-ERROR property={prop} {e}")
        rc = rc or 2
    if rc == 0:
        print(f"[{prop}] OK")
    return rc

"""
C15 - Fourier interpolation and resolution changes are exact for band-limited states.

Lift L: FourierInterpolator(u)(x) and map_between_resolutions are linear in the state.
  * map_between_resolutions: every (N_old, N_new) pair in a range with all parity combinations incl. +-1,
    channel counts, oddball_zero in {T, F}; EVERY Nyquist-free basis function of the old grid must be the same
    trigonometric polynomial sampled on the new grid whenever the new grid resolves it; up-then-down is the
    identity; mean preservation on EVERY grid delta (=> every state, Nyquist content included).
  * FourierInterpolator: every grid delta at every grid point (=> reproduces every state at its own grid
    points); every Nyquist-free basis function at a query alphabet (off-grid rationals / irrationals, x+L, x-2L,
    negative coordinates) versus the analytic value; both indexings.
"""

import itertools
import math

import numpy as np

from mc import ref
from mc.core import bfs

EPS = 2.3e-16
RULE = ("one state per (D, N_old, N_new, C, oddball_zero, basis function | delta) and per (D, N, L, indexing, basis function | delta, query point); "
        "transition = one map_between_resolutions / interpolator call; distinct_nontrivial = distinct observed outputs")
ASSUMPTIONS = ["lift L (both utilities are linear in the state); superposition states probe it", "bounded (N_old, N_new) ranges and a finite query alphabet"]
LS = [1.0, 2 * math.pi, 0.37]


def bounds(tier):
    if tier == "quick":
        return {"pairs": {1: list(range(2, 12)), 2: list(range(2, 8)), 3: [2, 3, 4, 5]}, "interp_N": {1: list(range(2, 13)), 2: list(range(2, 7)), 3: [2, 3, 4]}, "L": LS}
    return {"pairs": {1: list(range(2, 14)), 2: list(range(2, 10)), 3: list(range(2, 7))},
            "interp_N": {1: list(range(2, 20)), 2: list(range(2, 10)), 3: [2, 3, 4, 5]}, "L": LS}


def units(tier, seed):
    b = bounds(tier)
    us = []
    for D in (1, 2, 3):
        for No in b["pairs"][D]:
            us.append({"name": f"map/D{D}/N{No}", "kind": "map", "D": D, "No": No, "Nn": b["pairs"][D], "cost": No**D * sum(n**D for n in b["pairs"][D])})
        for N in b["interp_N"][D]:
            us.append({"name": f"interp/D{D}/N{N}", "kind": "interp", "D": D, "N": N, "cost": N ** (2 * D) * 3})
    return us


def unit_map(u, rec):
    import jax
    import jax.numpy as jnp

    import exponax as ex

    D, No = u["D"], u["No"]
    L = 1.0
    rec.dim("D", D)
    rec.dim("N_old", No)
    basis = ref.real_basis(D, No, nyquist=False)
    Xo = ref.grid(D, No, L)
    Bo = ref.basis_fields(D, No, L, basis, Xo)
    Dl = ref.deltas(D, No)
    w = ref.weights(len(basis), u["seed"])
    for Nn in u["Nn"]:
        rec.dim("N_new", Nn)
        Xn = ref.grid(D, Nn, L)
        for oz in (True, False):
            f = jax.vmap(lambda s: ex.map_between_resolutions(s, Nn, oddball_zero=oz))
            for C in (1, 2):
                # basis functions: exact resampling whenever the new grid resolves the mode strictly below ITS Nyquist
                idx = np.array([[(i + 2 * c) % len(basis) for c in range(C)] for i in range(len(basis))])
                got = np.asarray(f(jnp.asarray(Bo[idx])))
                rec.count(states=len(basis), transitions=len(basis), traces=len(basis))
                if not rec.check(got.shape == (len(basis), C) + (Nn,) * D, "C15/map/shape", "map_between_resolutions output shape", D=D, No=No, Nn=Nn, got=list(got.shape)):
                    continue
                for i in range(len(basis)):
                    ok_modes = all(all(abs(v) < Nn / 2 for v in basis[j][0]) for j in idx[i])
                    if not ok_modes:
                        continue
                    want = np.stack([ref.mode_field(basis[j][0], Xn, L, 1.0, 0.0 if basis[j][1] == "c" else -np.pi / 2) for j in idx[i]])
                    if not rec.close(np.max(np.abs(got[i] - want)), 1e3 * EPS * max(No, Nn) ** (D / 2), "C15/map/resample",
                                     "a resolved band-limited state is not the same trigonometric polynomial on the new grid",
                                     D=D, No=No, Nn=Nn, C=C, oddball_zero=oz, k=basis[idx[i][0]][0], cs=basis[idx[i][0]][1]):
                        break
                rec.outcome_array(got[: min(3, len(got))])
            # up-then-down (and down-then-up for resolved states) is the identity on Nyquist-free states
            if Nn > No:
                st = np.concatenate([Bo, np.tensordot(w, Bo, axes=1)[None]])[:, None]
                up = jax.vmap(lambda s: ex.map_between_resolutions(s, Nn, oddball_zero=oz))(jnp.asarray(st))
                back = np.asarray(jax.vmap(lambda s: ex.map_between_resolutions(s, No, oddball_zero=oz))(up))
                rec.count(states=len(st), transitions=2 * len(st), traces=len(st))
                rec.close(np.max(np.abs(back - st)), 1e3 * EPS * Nn ** (D / 2) * float(np.sum(np.abs(w))), "C15/map/up_down_identity",
                          "mapping to a finer grid and back does not return the original Nyquist-free state", D=D, No=No, Nn=Nn, oddball_zero=oz)
            # mean preservation on every delta => every state (Nyquist content included)
            gd = np.asarray(f(jnp.asarray(Dl[:, None])))
            rec.count(states=len(Dl), transitions=len(Dl), traces=len(Dl))
            m_in = Dl.reshape(len(Dl), -1).mean(axis=1)
            m_out = gd.reshape(len(Dl), -1).mean(axis=1)
            rec.close(np.max(np.abs(m_out - m_in)), 1e3 * EPS, "C15/map/mean", "a resolution change does not preserve the mean", D=D, No=No, Nn=Nn, oddball_zero=oz)
    # histories: BFS over sequences of resolution changes (depth 3) starting from a low-mode trigonometric polynomial; the reference model is the
    # polynomial itself, sampled on whatever grid the state currently lives on; every path that never visits a grid with N <= 2*kmax must stay exact
    if No >= 3:
        low = [b for b in basis if max(abs(v) for v in b[0]) <= 1]
        wl = ref.weights(len(low), u["seed"] + 2)
        alphabet = sorted({n for n in (No - 1, No + 1, No + 2, 2 * No, 3, 4) if n >= 3 and n != No and n**D <= 4096})

        def exact(N):
            X_ = ref.grid(D, N, L)
            return sum(wl[i] * ref.mode_field(low[i][0], X_, L, 1.0, 0.0 if low[i][1] == "c" else -np.pi / 2) for i in range(len(low)))[None]

        def step(op, key, iv, mv):
            # canonical model state: (current grid, path); the diamond check below compares states that reach the same grid by different paths
            return (op, key[1] + (op,)), ex.map_between_resolutions(iv, op), None

        def inv(key, iv, mv, trace):
            f = np.asarray(iv)
            want = exact(key[0])
            ok = rec.check(f.shape == want.shape, "C15/history/shape", "state after a sequence of resolution changes has the wrong shape", D=D, path=[No] + list(key[1]))
            if ok:
                rec.close(float(np.max(np.abs(f - want))), 1e3 * EPS * float(np.sum(np.abs(wl))) * max([No] + list(key[1])) ** (D / 2) * (1 + len(trace)), "C15/history/value",
                          "after a sequence of resolution changes a resolved low-mode state is no longer the same trigonometric polynomial", D=D, path=[No] + list(key[1]))
                rec.outcome("hist", D, No, key[1], float(np.sum(f * f)))

        bfs(rec, [((No, ()), jnp.asarray(exact(No)), None)], alphabet, step, inv, depth=3, label="C15/history")
        # same exploration with the model-state key (current grid only): paths merge, and merged implementation states must agree (diamonds)
        def step2(op, key, iv, mv):
            return op, ex.map_between_resolutions(iv, op), None

        def inv2(key, iv, mv, trace):
            pass

        bfs(rec, [(No, jnp.asarray(exact(No)), None)], alphabet, step2, inv2, depth=3,
            same=lambda a, b: a.shape == b.shape and float(np.max(np.abs(np.asarray(a) - np.asarray(b)))) <= 1e-11 * float(np.sum(np.abs(wl))), label="C15/history")
    rec.sample({"D": D, "N_old": No, "N_new": u["Nn"], "basis": len(basis), "deltas": len(Dl), "history_alphabet": "resolutions {N-1,N+1,N+2,2N,3,4}, depth 3"})


QUERY_1D = [0.0, 0.123456, 1 / 3, math.sqrt(2) / 3, 0.999, 1.0, 1.75, -0.4, -2.0 + 0.3, 2.5]


def unit_interp(u, rec):
    import jax
    import jax.numpy as jnp

    import exponax as ex

    D, N = u["D"], u["N"]
    rec.dim("D", D)
    rec.dim("N", N)
    for L in LS:
        for indexing in ("ij", "xy"):
            G = np.asarray(ex.make_grid(D, L, N, indexing=indexing))
            # (1) every delta at every grid point: the N^D x N^D table must be the identity  (=> reproduces every state at its grid points)
            Dl = ref.deltas(D, N)
            pts = G.reshape(D, -1).T  # (N^D, D) in array order
            def table(state):
                it = ex.FourierInterpolator(state, domain_extent=L, indexing=indexing)
                return jax.vmap(it)(jnp.asarray(pts))

            T = np.asarray(jax.vmap(table)(jnp.asarray(Dl[:, None])))[:, :, 0]  # (delta, point)
            rec.count(states=len(Dl), transitions=len(Dl) * len(pts), traces=len(Dl))
            rec.close(np.max(np.abs(T - np.eye(len(Dl)))), 1e3 * EPS * N**D, f"C15/interp/grid_points/{indexing}",
                      "the interpolant does not reproduce the state at its own grid points", D=D, N=N, L=L)
            # (2) every Nyquist-free basis function at off-grid / outside-domain query points vs the analytic value
            basis = ref.real_basis(D, N, nyquist=False)
            qs = [tuple(L * QUERY_1D[(i * 3 + d * 5 + j) % len(QUERY_1D)] for d in range(D)) for j in range(len(QUERY_1D)) for i in range(2)]
            Q = np.array(qs)
            fields = np.stack([np.cos(sum((2 * np.pi / L) * k[d] * G[d] for d in range(D)) + (0.0 if cs == "c" else -np.pi / 2)) for k, cs in basis])
            C2 = np.stack([fields, np.roll(fields, -1, axis=0)], axis=1)  # two channels

            def evalq(state):
                it = ex.FourierInterpolator(state, domain_extent=L, indexing=indexing)
                return jax.vmap(it)(jnp.asarray(Q))

            got = np.asarray(jax.vmap(evalq)(jnp.asarray(C2)))  # (basis, query, 2)
            want1 = np.stack([np.cos(np.array([sum((2 * np.pi / L) * k[d] * q[d] for d in range(D)) for q in qs]) + (0.0 if cs == "c" else -np.pi / 2)) for k, cs in basis])
            want = np.stack([want1, np.roll(want1, -1, axis=0)], axis=2)
            rec.count(states=len(basis), transitions=len(basis) * len(qs), traces=len(basis))
            if rec.check(got.shape == want.shape, "C15/interp/shape", "interpolator output shape is not (C,)", D=D, N=N, got=list(got.shape)):
                err = np.max(np.abs(got - want).reshape(len(basis), -1), axis=1)
                i = int(np.argmax(err))
                rec.close(err[i], 1e3 * EPS * N**D * (1 + 2.5 * N), f"C15/interp/query/{indexing}",
                          "the interpolant of a band-limited state differs from the analytic value (periodic extension included)",
                          D=D, N=N, L=L, k=basis[i][0], cs=basis[i][1])
            rec.outcome_array(got[: min(3, len(got))])
    rec.sample({"D": D, "N": N, "L": LS, "queries_in_units_of_L": QUERY_1D, "deltas": N**D})


def run_unit(u, rec):
    {"map": unit_map, "interp": unit_interp}[u["kind"]](u, rec)

"""
C02 - ETDRK-p steppers realise the Cox-Matthews scheme with exact phi coefficients.

(a) coefficient conformance: exponax.etdrk.ETDRK{1..4} built directly on a z-lattice (z = lambda*dt over
    the real axis [-1e9, 20], the imaginary axis, left-half-plane rays and z = 0 exactly) with
    user-defined nonlinear terms (constant, alpha*u for five alphas, pointwise square): step_fourier versus
    the reference scheme built on exact phi functions (mc.ref.etdrk_ref).  The step is a polynomial in alpha
    of degree p whose coefficients are products of the scheme coefficients, so p+1 alphas pin every coefficient.
(b) whole steppers: every public semi-linear stepper x order 0..4 x small (D, N) x state lattice:
    stepper.step_fourier(u_hat) versus etdrk_ref(order, documented symbol * dt, dt, PUBLIC nonlinear function).
(c) consequence: dt-halving ladders show order p for every family (finite, deterministic).
"""

import contextlib
import itertools
import math

import numpy as np

from mc import catalog, ref

EPS = 2.3e-16
RULE = ("(a) one state per (order, dt, nonlinear term, state, z) lattice point; (b) one state per (stepper entry, D, N, order, input state); "
        "(c) one state per ladder rung; transitions = step_fourier / stepper calls; distinct_nontrivial = distinct observed outputs")
ASSUMPTIONS = [
    "the reference ETDRK scheme (mc/ref.py: phi by Taylor/closed form, Cox-Matthews stage formulas) is itself validated in the self-test "
    "by its convergence order on a scalar ODE with complex lambda",
    "(b) uses the library's public nonlinear-function classes as the nonlinear term of the reference scheme (their correctness is C03)",
    "tolerance: 1e4*eps*(1+|z|) relative to the sum of magnitudes of the terms of the update (conditioning of exp(z) and of the contour mean)",
]


def z_lattice():
    zs = [0j]
    thetas = [math.pi, math.pi / 2, -math.pi / 2, 3 * math.pi / 4, -3 * math.pi / 4, 5 * math.pi / 8, -5 * math.pi / 8, 7 * math.pi / 8, -7 * math.pi / 8]
    for e in range(-8, 10):
        for m in (1, 2, 5):
            r = m * 10.0**e
            if r > 1e9:
                continue
            for th in thetas:
                zs.append(complex(r * math.cos(th), r * math.sin(th)) if abs(th) != math.pi else complex(-r, 0.0))
            if r <= 20:
                zs.append(complex(r, 0))
    for r in np.linspace(0.25, 20, 80):
        zs.append(complex(r, 0))
    # exact imaginary axis (cos(pi/2) is not exactly 0)
    zs = [complex(0.0, z.imag) if abs(z.real) < 1e-9 * abs(z) else z for z in zs]
    return np.array(sorted(set(zs), key=lambda z: (abs(z), math.atan2(z.imag, z.real))))


def bounds(tier):
    return {
        "z_lattice_points": len(z_lattice()),
        "dt": [1.0, 0.01, 7.0],
        "orders": [0, 1, 2, 3, 4],
        "stepper_grids": {1: [8, 9] if tier == "quick" else [8, 9, 12, 15], 2: [8] if tier == "quick" else [8, 9], 3: [8]},
        "ladder_rungs": 4,
    }


def units(tier, seed):
    b = bounds(tier)
    us = []
    for p in (1, 2, 3, 4):
        us.append({"name": f"coef/order{p}", "kind": "coef", "order": p, "dts": b["dt"], "cost": 30})
    for e in catalog.entries():
        if e.linear:
            continue
        for D in e.dims:
            us.append({"name": f"stepper/{e.name}/D{D}", "kind": "stepper", "entry": e.name, "D": D, "Ns": b["stepper_grids"][D],
                       "cost": 20 * D * D})
    for e in catalog.entries():
        if e.linear:
            continue
        D = e.dims[0]
        us.append({"name": f"passthrough/{e.name}/D{D}", "kind": "passthrough", "entry": e.name, "D": D, "N": {1: 12, 2: 8, 3: 8}[D], "cost": 15 * D * D})
    for fam in LADDERS:
        us.append({"name": f"ladder/{fam}", "kind": "ladder", "fam": fam, "cost": 40})
    return us


# ----------------------------------------------------------------------------- (a)


def unit_coef(u, rec):
    import jax
    import jax.numpy as jnp

    import exponax as ex
    from exponax.nonlin_fun import BaseNonlinearFun

    class UserN(BaseNonlinearFun):
        kind: str
        alpha: complex

        def __init__(self, kind, alpha=0.0):
            super().__init__(1, 4)
            self.kind = kind
            self.alpha = alpha

        def __call__(self, u_hat):
            if self.kind == "const":
                return jnp.full_like(u_hat, 0.6 - 0.3j)
            if self.kind == "lin":
                return self.alpha * u_hat
            return u_hat * u_hat

    def np_n(kind, alpha):
        if kind == "const":
            return lambda x: np.full_like(x, 0.6 - 0.3j)
        if kind == "lin":
            return lambda x: alpha * x
        return lambda x: x * x

    p = u["order"]
    cls = {1: ex.etdrk.ETDRK1, 2: ex.etdrk.ETDRK2, 3: ex.etdrk.ETDRK3, 4: ex.etdrk.ETDRK4}[p]
    Z = z_lattice()
    rec.dim("order", p)
    terms = [("const", 0.0)] + [("lin", a) for a in (0.7, -0.5, 2.0, 1.3j, -1 - 0.4j)] + [("sq", 0.0)]
    states = [np.full(Z.shape, 1.0 + 0j), np.full(Z.shape, 0.3 - 0.2j), 0.4 * np.exp(1j * np.arange(Z.size) * 0.7)]
    # contour variants: the default (16 points, radius 1) and two non-default contours (the mean must be taken over the points actually used; radii are
    # chosen off the lattice magnitudes because a lattice point z with |z| = radius can sit exactly on a contour node, where the method is singular by design);
    # plus the real axis passed as a REAL-dtype operator (a user-defined real symbol must give the same coefficients)
    variants = [("default", {}, Z, False), ("M32_r2", dict(num_circle_points=32, circle_radius=2.0), Z, False), ("M24_r0.7", dict(num_circle_points=24, circle_radius=0.7), Z, False),
                ("real_dtype", {}, Z[np.abs(Z.imag) == 0], True)]
    for dt, (vname, ckw, Zv, as_real) in itertools.product(u["dts"], variants):
        if vname != "default" and dt != u["dts"][0]:
            continue
        rec.dim("dt", dt)
        rec.dim("contour", vname)
        lin = jnp.asarray((Zv.real / dt)[None, :]) if as_real else jnp.asarray((Zv / dt)[None, :])
        zz = np.asarray(lin)[0] * dt  # the z the implementation actually sees (rounded once)
        zz = zz.astype(complex)
        for kind, alpha in terms:
            integ = cls(dt, lin, UserN(kind, alpha), **ckw)
            nfun = np_n(kind, alpha)
            for si, s in enumerate(states):
                s = s[: zz.size] if s.size != zz.size else s
                if kind == "sq" and si == 0:
                    s = s * 0.3
                got = np.asarray(integ.step_fourier(jnp.asarray(s[None, :])))[0]
                want, mag = etdrk_ref_mag(p, zz, dt, nfun, s)
                tol = 1e4 * EPS * (1 + np.abs(zz)) * mag
                with np.errstate(invalid="ignore"):
                    e = np.abs(got - want) / tol
                e = np.where(np.isfinite(want), e, 0.0)
                bad_nonfinite = ~np.isfinite(got) & np.isfinite(want)
                rec.count(states=zz.size, transitions=1, traces=1)
                j = int(np.argmax(np.where(bad_nonfinite, np.inf, e)))
                rec.close(np.inf if bad_nonfinite.any() else e[j], 1.0, f"C02/coef/order{p}/{kind}" + ("" if vname == "default" else f"/{vname}"),
                          "ETDRK step differs from the Cox-Matthews scheme with exact phi coefficients",
                          dt=dt, contour=vname, alpha=complex(alpha), state=si, z=complex(zz[j]), got=complex(got[j]), want=complex(want[j]))
                rec.outcome_array(got[::37])
    rec.sample({"order": p, "z_examples": [complex(z) for z in Z[[0, 1, 50, 200, -1]]], "terms": [t[0] for t in terms], "dts": u["dts"]})


def etdrk_ref_mag(order, z, dt, nonlin, u):
    """reference step and the sum of magnitudes of the terms of the final combination (conditioning)"""
    want = ref.etdrk_ref(order, z, dt, nonlin, u)
    E = np.exp(z)
    Nu = np.abs(nonlin(u))
    p1 = np.abs(ref.phi(1, z))
    # crude but safe magnitude: |E u| + dt*|phi_1|(sum of stage nonlinearity magnitudes ~ up to 9x via weights)
    stage = np.maximum(np.abs(u), np.abs(want))
    Ns = np.maximum(Nu, np.abs(nonlin(want)))
    mag = np.abs(E) * np.abs(u) + dt * np.maximum(p1, 1.0 / (1.0 + np.abs(z))) * 12 * Ns + np.abs(want) + 1e-300
    return want, np.maximum(mag, stage)


# ----------------------------------------------------------------------------- (b)


def entry_symbol(e, D, N, L):
    W = ref.rfft_wavenumbers(D, N)
    C = e.channels(D)
    lam = np.empty((C,) + W.shape[1:], dtype=complex)
    mag = np.empty((C,) + W.shape[1:])
    for ch in range(C):
        for idx in np.ndindex(*W.shape[1:]):
            lam[(ch,) + idx], mag[(ch,) + idx] = e.sym(tuple(int(W[d][idx]) for d in range(D)), D, N, L, ch)
    nyq = np.zeros(W.shape[1:], dtype=bool)
    if N % 2 == 0:
        for d in range(D):
            nyq |= np.abs(W[d]) == N // 2
    return lam, mag, nyq


def unit_stepper(u, rec):
    import jax.numpy as jnp

    import exponax as ex

    e = catalog.by_name()[u["entry"]]
    D = u["D"]
    rec.dim("entry", e.name)
    rec.dim("D", D)
    for N in u["Ns"]:
        rec.dim("N", N)
        L, dt = (1.0, 1.0) if e.fixed else (2.5, 0.05)
        C = e.channels(D)
        lam, mag, nyq = entry_symbol(e, D, N, L)
        nl = e.nonlin(ex, jnp, D, N, L, dt)
        nfun = lambda x: np.asarray(nl(jnp.asarray(x)))
        states = catalog.smooth_states(D, N, C, u["seed"], count=3, amp=e.amp)
        z = lam * dt
        for order in (0, 1, 2, 3, 4):
            rec.dim("order", order)
            st = e.build(ex, jnp, D, N, L, dt, order)
            for si, s in enumerate(states):
                uh = np.asarray(ex.fft(jnp.asarray(s), num_spatial_dims=D))
                got = np.asarray(st.step_fourier(jnp.asarray(uh)))
                want = ref.etdrk_ref(order, z, dt, nfun, uh)
                scale = float(np.max(np.abs(want))) + float(np.max(np.abs(uh)))
                err = np.abs(got - want) / (1e4 * EPS * (1 + mag * dt) * scale)
                err = np.where(nyq[None], 0.0, err)
                j = np.unravel_index(np.argmax(err), err.shape)
                rec.count(states=1, transitions=1, traces=1)
                rec.close(err[j], 1.0, f"C02/stepper/{e.name}/order{order}",
                          "stepper.step_fourier differs from the reference ETDRK scheme on the documented symbol and the public nonlinear term",
                          D=D, N=N, L=L, dt=dt, state=si, index=list(map(int, j)), got=complex(got[j]), want=complex(want[j]))
                if order == 0:
                    # order 0 is pure propagation
                    prop = np.exp(z) * uh
                    e0 = np.where(nyq[None], 0.0, np.abs(got - prop)) / (1e4 * EPS * (1 + mag * dt) * scale)
                    rec.close(np.max(e0), 1.0, f"C02/stepper/{e.name}/order0_propagation", "order 0 is not the pure linear propagation", D=D, N=N)
                rec.outcome_array(got.ravel()[:: max(1, got.size // 16)])
        rec.sample({"entry": e.name, "D": D, "N": N, "L": L, "dt": dt, "orders": [0, 1, 2, 3, 4], "states": len(states)})


# ----------------------------------------------------------------------------- (b') numerical options of the stepper classes reach the integrator


@contextlib.contextmanager
def injected(cls, extra, force=False):
    """calls of cls(...) inside the block receive the keyword arguments `extra` (as a user passing them would); restored afterwards"""
    orig = cls.__init__

    def init(self, *a, **k):
        for n, v in extra.items():
            if force or n not in k:
                k[n] = v
        return orig(self, *a, **k)

    cls.__init__ = init
    try:
        yield
    finally:
        cls.__init__ = orig


def unit_passthrough(u, rec):
    """Every semi-linear stepper class accepts dealiasing_fraction, num_circle_points and circle_radius.  Built with non-default values of all three,
    one step must equal the public ETDRK-p integrator assembled by hand from the documented symbol, the public nonlinear term with that fraction,
    and those contour parameters (a deliberately coarse contour, M = 6, r = 0.8, so that the default contour gives visibly different numbers)."""
    import inspect

    import jax.numpy as jnp

    import exponax as ex

    e = catalog.by_name()[u["entry"]]
    D, N = u["D"], u["N"]
    rec.dim("entry", e.name)
    cls = catalog.exported_stepper_classes()[e.name.split("/")[0]]
    params = inspect.signature(cls.__init__).parameters
    L, dt = (1.0, 1.0) if e.fixed else (2.5, 0.05)
    C = e.channels(D)
    lam, mag, nyq = entry_symbol(e, D, N, L)
    M2, r2 = 6, 0.8
    f2 = 0.5 if e.frac > 0.6 else 2 / 3
    extra = {k: v for k, v in (("dealiasing_fraction", f2), ("num_circle_points", M2), ("circle_radius", r2)) if k in params}
    rec.check({"num_circle_points", "circle_radius"} <= set(extra), f"C02/passthrough/{e.name}/no_contour_options", "the stepper class does not offer the contour options", have=sorted(extra))
    nl0 = e.nonlin(ex, jnp, D, N, L, dt)
    if "dealiasing_fraction" in extra and "dealiasing_fraction" in inspect.signature(type(nl0).__init__).parameters:
        with injected(type(nl0), {"dealiasing_fraction": f2}, force=True):
            nl = e.nonlin(ex, jnp, D, N, L, dt)
    else:
        nl = nl0
        extra.pop("dealiasing_fraction", None)
    smooth = catalog.smooth_states(D, N, C, u["seed"], count=2, amp=e.amp)
    rich = (np.mod(np.arange(C * N**D) * 7 + (np.arange(C * N**D) // 3) * 5 + u["seed"], 3) - 1.0).reshape((C,) + (N,) * D) * 0.4 * min(1.0, e.amp)
    ETD = {1: ex.etdrk.ETDRK1, 2: ex.etdrk.ETDRK2, 3: ex.etdrk.ETDRK3, 4: ex.etdrk.ETDRK4}
    for order in (1, 2, 3, 4):
        rec.dim("order", order)
        with injected(cls, extra):
            st = e.build(ex, jnp, D, N, L, dt, order)
        st_default = e.build(ex, jnp, D, N, L, dt, order)
        hand = ETD[order](dt, jnp.asarray(lam), nl, num_circle_points=M2, circle_radius=r2)
        sens = 0.0
        for si, sx in enumerate([smooth[1], rich]):
            uh = jnp.asarray(np.asarray(ex.fft(jnp.asarray(sx), num_spatial_dims=D)))
            got = np.asarray(st.step_fourier(uh))
            want = np.asarray(hand.step_fourier(uh))
            dflt = np.asarray(st_default.step_fourier(uh))
            if not (np.all(np.isfinite(want)) and np.all(np.isfinite(dflt))):
                continue
            scale = float(np.max(np.abs(want))) + float(np.max(np.abs(np.asarray(uh))))
            err = np.where(nyq[None], 0.0, np.abs(got - want)) / (1e4 * EPS * (1 + mag * dt) * scale)
            j = np.unravel_index(np.argmax(err), err.shape)
            rec.count(states=1, transitions=3, traces=1)
            rec.close(err[j], 1.0, f"C02/passthrough/{e.name}/order{order}",
                      "a stepper built with non-default dealiasing_fraction / num_circle_points / circle_radius differs from the ETDRK integrator assembled "
                      "by hand with those values (an option does not reach the integrator or the nonlinear term)",
                      D=D, N=N, options={k: float(v) for k, v in extra.items()}, state=si, index=list(map(int, j)), got=complex(got[j]), want=complex(want[j]))
            sens = max(sens, float(np.max(np.where(nyq[None], 0.0, np.abs(dflt - want)) / (1e4 * EPS * (1 + mag * dt) * scale))))
            rec.outcome_array(got.ravel()[:: max(1, got.size // 16)])
        # vacuity guard: the default options must give visibly different numbers, otherwise the comparison above could not notice a lost option
        rec.dim("sensitivity_log10", f"{e.name}/o{order}:{math.log10(max(sens, 1e-300)):.1f}")
        if sens <= 10.0:  # not a verdict about the library: the comparison is merely uninformative for this configuration
            rec.notes.append(f"passthrough {e.name} order {order}: default and non-default options are indistinguishable (sensitivity {sens:.3g})")
    rec.sample({"entry": e.name, "D": D, "N": N, "options": {k: float(v) for k, v in extra.items()}})


# ----------------------------------------------------------------------------- (c)

LADDERS = {
    # name: (entry, D, N, L, T, base steps)
    "Burgers1d": ("Burgers", 1, 32, 2.5, 0.4, 16),
    "KdV1d": ("KortewegDeVries", 1, 32, 2.5, 0.2, 16),
    "KS1d": ("KuramotoSivashinsky", 1, 32, 2.5, 0.4, 32),
    "NSvort2d": ("NavierStokesVorticity", 2, 12, 2.5, 0.4, 16),
    "Fisher1d": ("FisherKPP", 1, 24, 2.5, 0.8, 16),
    "GeneralConvection1d": ("GeneralConvectionStepper", 1, 32, 2.5, 0.4, 16),
    "GeneralNonlinear1d": ("GeneralNonlinearStepper", 1, 32, 2.5, 0.4, 16),
    "KdV2d": ("KortewegDeVries", 2, 12, 2.5, 0.2, 16),
}


def unit_ladder(u, rec):
    import jax.numpy as jnp

    import exponax as ex

    ename, D, N, L, T, n0 = LADDERS[u["fam"]]
    e = catalog.by_name()[ename]
    C = e.channels(D)
    s = jnp.asarray(catalog.smooth_states(D, N, C, 1, count=2, amp=0.6)[1])

    def run(order, n):
        st = e.build(ex, jnp, D, N, L, T / n, order)
        return np.asarray(ex.repeat(st, n)(s))

    refsol = run(4, n0 * 64)
    scale = float(np.max(np.abs(refsol)))
    for p in (1, 2, 3, 4):
        errs = []
        for r in range(4):
            n = n0 * 2**r
            errs.append(float(np.max(np.abs(run(p, n) - refsol))))
            rec.count(states=1, transitions=n, traces=1)
        floor = 1e-11 * scale
        rates = [math.log2(errs[i] / errs[i + 1]) if errs[i + 1] > 0 else 99.0 for i in range(3)]
        overall = math.log2(errs[0] / max(errs[3], 1e-300)) / 3
        ok = overall >= p - 0.4 or rates[2] >= p - 0.4 or errs[3] < floor
        rec.check(ok, f"C02/ladder/{u['fam']}/order{p}", "global error does not decay like dt^p under dt-halving",
                  errs=errs, rates=rates, overall=overall)
        # the finest rung of a higher order must not be worse than a lower order by a large factor (sanity)
        rec.outcome("ladder", u["fam"], p, float(errs[0]), float(errs[3]))
        rec.notes.append(f"ladder {u['fam']} p={p} rates={['%.2f' % r for r in rates]} errs={['%.2e' % x for x in errs]}")
    rec.sample({"ladder": u["fam"], "entry": ename, "D": D, "N": N, "T": T, "rungs": [n0 * 2**r for r in range(4)]})


def run_unit(u, rec):
    {"coef": unit_coef, "stepper": unit_stepper, "passthrough": unit_passthrough, "ladder": unit_ladder}[u["kind"]](u, rec)

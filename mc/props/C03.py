"""
C03 - nonlinear terms equal the alias-free projection of the documented operator.

Lift P: every built-in term is a polynomial map of degree d <= 3 in the (band-truncated) state.  A polynomial
map of degree <= d is determined by its values on the simplex lattice {sum a_i b_i : a in N^n, |a| <= d} over a
basis b of the retained band.  The harness enumerates that lattice completely, plus (v, v+e) pairs for every
out-of-band / Nyquist basis vector e (content up to Nyquist is admitted and must be ignored), plus dense
ternary states on the smallest grids, and compares with an oracle that evaluates the documented continuous
operator on a fine grid with M >= 2*d*K+1 points (no aliasing possible) and truncates to the documented band.
"""

import itertools
import math

import numpy as np

from mc import ref

EPS = 2.3e-16
RULE = ("one state per lattice point of Lambda_d(in-band basis) / out-of-band pair / ternary state, per (term, flags, D, N, L, scale); "
        "transition = one call of the nonlinear function; distinct_nontrivial = distinct observed outputs")
ASSUMPTIONS = [
    "lift P: the term is a polynomial map of degree <= d of the band-truncated state (composition of FFTs, masks, multipliers, pointwise products); "
    "cross-probed with dense ternary states and full-band superpositions",
    "oracle: own zero-padding to a fine grid with M = 2*d*K+1 (odd) points per axis, pointwise evaluation, own truncation; numpy FFT only",
    "retained band K = floor(fraction*(N//2) - 1) as documented; the harness also checks (d+1)*K < N and K >= floor(fraction*(N//2)) - 2",
]
LS = [1.0, 2 * math.pi, 3.3]
SCALES = [1.0, -0.5, 2.0]


def bounds(tier):
    if tier == "quick":
        return {"N": {1: list(range(6, 18)), 2: list(range(6, 12)), 3: [6, 7, 8]}, "N_cubic": {1: list(range(8, 20)), 2: [8, 9, 10, 11, 12], 3: [8, 9]},
                "L": LS, "scales": SCALES, "chunk": 4096}
    return {"N": {1: list(range(6, 30)), 2: list(range(6, 18)), 3: list(range(6, 11))},
            "N_cubic": {1: list(range(8, 32)), 2: list(range(8, 20)), 3: list(range(8, 12))}, "L": LS, "scales": SCALES, "chunk": 4096}


# term name -> (dims, channels(D), degree, fraction)
TERMS = {
    "conv/multi": ((1, 2, 3), lambda D: D, 2, 2 / 3),
    "conv/multi_cons": ((1, 2, 3), lambda D: D, 2, 2 / 3),
    "conv/single": ((1, 2, 3), lambda D: 1, 2, 2 / 3),
    "conv/single_cons": ((1, 2, 3), lambda D: 1, 2, 2 / 3),
    "gradnorm/fix": ((1, 2, 3), lambda D: 1, 2, 2 / 3),
    "gradnorm/nofix": ((1, 2, 3), lambda D: 1, 2, 2 / 3),
    "gradnorm/fix_C2": ((1, 2), lambda D: 2, 2, 2 / 3),
    "poly/deg2": ((1, 2, 3), lambda D: 1, 2, 2 / 3),
    "poly/deg1": ((1, 2), lambda D: 1, 1, 2 / 3),
    "poly/deg0": ((1, 2), lambda D: 1, 0, 2 / 3),
    "poly/deg3": ((1, 2, 3), lambda D: 1, 3, 1 / 2),
    "poly/deg2_C2": ((1, 2), lambda D: 2, 2, 2 / 3),
    "general": ((1, 2, 3), lambda D: 1, 2, 2 / 3),
    "general/half": ((1, 2), lambda D: 1, 2, 1 / 2),
    "general/nofix": ((1, 2), lambda D: 1, 2, 2 / 3),
    "conv/single_cons/half": ((1, 2), lambda D: 1, 2, 1 / 2),
    "conv/multi/half": ((2,), lambda D: D, 2, 1 / 2),
    "gradnorm/fix/half": ((1, 2), lambda D: 1, 2, 1 / 2),
    "vort2d/half": ((2,), lambda D: 1, 2, 1 / 2),
    "proj3d/half": ((3,), lambda D: 3, 2, 1 / 2),
    "vort2d": ((2,), lambda D: 1, 2, 2 / 3),
    "vort2d/kolmogorov": ((2,), lambda D: 1, 2, 2 / 3),
    "proj3d": ((3,), lambda D: 3, 2, 2 / 3),
    "proj3d/kolmogorov": ((3,), lambda D: 3, 2, 2 / 3),
    "cahnhilliard": ((1, 2, 3), lambda D: 1, 3, 1 / 2),
    "grayscott": ((1, 2, 3), lambda D: 2, 3, 1 / 2),
}


def lattice_size(n, d):
    return sum(math.comb(n + j - 1, j) for j in range(d + 1))


def units(tier, seed):
    b = bounds(tier)
    us = []
    for name, (dims, ch, deg, frac) in TERMS.items():
        for D in dims:
            Ns = b["N_cubic"][D] if (deg == 3 or frac < 0.6) else b["N"][D]
            for N in Ns:
                K = ref.band_limit(D, N, frac)
                n = max(1, (2 * K + 1) ** D * ch(D))
                size = lattice_size(n, max(deg, 1))
                if tier == "quick" and size > 12000:
                    continue
                if size > 700000:
                    continue
                combos = [(LS[(N + D) % 3], SCALES[N % 3])]
                if tier == "thorough" and size * N**D < 3e6:
                    combos = list(itertools.product(LS, SCALES))
                us.append({"name": f"{name}/D{D}/N{N}", "kind": "term", "term": name, "D": D, "N": N, "combos": combos, "chunk": b["chunk"],
                           "cost": size * (N**D) * len(combos)})
    return us


# --------------------------------------------------------------------------- library side


def build_term(ex, jnp, name, D, N, L, scale):
    DO = ex.spectral.build_derivative_operator(D, L, N)
    nf = ex.nonlin_fun
    fr = 0.5 if name.endswith("/half") else 2 / 3
    if name.startswith("conv/"):
        return nf.ConvectionNonlinearFun(D, N, derivative_operator=DO, dealiasing_fraction=fr, scale=scale,
                                         single_channel="single" in name, conservative="cons" in name)
    if name.startswith("gradnorm/"):
        return nf.GradientNormNonlinearFun(D, N, derivative_operator=DO, dealiasing_fraction=fr, zero_mode_fix="nofix" not in name, scale=scale)
    if name.startswith("poly/"):
        co = {"poly/deg2": (0.3, -0.7, scale), "poly/deg1": (0.4, scale), "poly/deg0": (scale,), "poly/deg3": (0.2, 0.5, -0.4, scale),
              "poly/deg2_C2": (0.0, 0.6, scale)}[name]
        return nf.PolynomialNonlinearFun(D, N, dealiasing_fraction=0.5 if name == "poly/deg3" else 2 / 3, coefficients=co)
    if name.startswith("general"):
        return nf.GeneralNonlinearFun(D, N, derivative_operator=DO, dealiasing_fraction=0.5 if "half" in name else 2 / 3,
                                      scale_list=(0.4 * scale, -0.7, 0.5 * scale), zero_mode_fix="nofix" not in name)
    if name in ("vort2d", "vort2d/half"):
        return nf.VorticityConvection2d(D, N, convection_scale=scale, derivative_operator=DO, dealiasing_fraction=fr)
    if name == "vort2d/kolmogorov":
        return nf.VorticityConvection2dKolmogorov(D, N, convection_scale=scale, injection_mode=1, injection_scale=0.8, derivative_operator=DO, dealiasing_fraction=2 / 3)
    if name in ("proj3d", "proj3d/half"):
        return nf.ProjectedConvection3d(D, N, derivative_operator=DO, dealiasing_fraction=fr)
    if name == "proj3d/kolmogorov":
        return nf.ProjectedConvection3dKolmogorov(D, N, injection_mode=1, injection_scale=0.8, derivative_operator=DO, dealiasing_fraction=2 / 3)
    if name == "cahnhilliard":
        from exponax.stepper.reaction._cahn_hilliard import CahnHilliardNonlinearFun

        return CahnHilliardNonlinearFun(D, N, derivative_operator=DO, scale=scale, dealiasing_fraction=0.5)
    if name == "grayscott":
        from exponax.stepper.reaction._gray_scott import GrayScottNonlinearFun

        return GrayScottNonlinearFun(D, N, dealiasing_fraction=0.5, feed_rate=0.035 * abs(scale), kill_rate=0.055)
    raise ValueError(name)


# --------------------------------------------------------------------------- oracle (documented continuous operators on the fine grid)


def oracle(name, fg, ch, L, scale):
    """ch: (B, C, M..M) normalised fine-grid spectrum of the band-truncated state -> (B, C, M..M) spectrum of the operator (before truncation)"""
    D = fg.D
    u = fg.phys(ch)

    def dx(c, axis, order=1):
        return fg.phys(fg.d(c, axis, order))

    if name.startswith("conv/"):
        single, cons = "single" in name, "cons" in name
        if single and cons:
            sq = fg.hat(u * u)
            return -scale * 0.5 * sum(fg.d(sq, a) for a in range(D))
        if single and not cons:
            return -scale * fg.hat(u * sum(dx(ch, a) for a in range(D)))
        if not single and cons:
            out = []
            for c in range(D):
                out.append(-scale * 0.5 * sum(fg.d(fg.hat(u[:, a] * u[:, c]), a) for a in range(D)))
            return np.stack(out, axis=1)
        out = []
        for c in range(D):
            out.append(-scale * fg.hat(sum(u[:, a] * dx(ch[:, c], a) for a in range(D))))
        return np.stack(out, axis=1)
    if name.startswith("gradnorm/"):
        g2 = sum(dx(ch, a) ** 2 for a in range(D))
        out = -scale * 0.5 * fg.hat(g2)
        if "nofix" not in name:
            out[(Ellipsis,) + (0,) * D] = 0.0
        return out
    if name.startswith("poly/"):
        co = {"poly/deg2": (0.3, -0.7, scale), "poly/deg1": (0.4, scale), "poly/deg0": (scale,), "poly/deg3": (0.2, 0.5, -0.4, scale),
              "poly/deg2_C2": (0.0, 0.6, scale)}[name]
        return fg.hat(sum(c * u**j for j, c in enumerate(co)))
    if name.startswith("general"):
        b0, b1, b2 = 0.4 * scale, -0.7, 0.5 * scale
        sq = fg.hat(u * u)
        g2 = fg.hat(sum(dx(ch, a) ** 2 for a in range(D)))
        if "nofix" not in name:
            g2[(Ellipsis,) + (0,) * D] = 0.0
        return b0 * sq + b1 * 0.5 * sum(fg.d(sq, a) for a in range(D)) + b2 * 0.5 * g2
    if name.startswith("vort2d"):
        k2 = sum(k * k for k in fg.kap)
        with np.errstate(divide="ignore"):
            inv = np.where(k2 > 0, -1.0 / np.where(k2 > 0, k2, 1.0), 0.0)
        psi = ch * inv
        ux = fg.phys(fg.d(psi, 1))  # u = d psi / dy
        vy = -fg.phys(fg.d(psi, 0))  # v = -d psi / dx
        out = -scale * fg.hat(ux * dx(ch, 0) + vy * dx(ch, 1))
        if "kolmogorov" in name:
            Xf = ref.grid(D, fg.M, L)
            kk = 2 * np.pi * 1 / L
            out = out + fg.hat((-kk * 0.8 * np.cos(kk * Xf[1]))[None, None])
        return out
    if name.startswith("proj3d"):
        def curl(c):
            return np.stack([fg.d(c[:, 2], 1) - fg.d(c[:, 1], 2), fg.d(c[:, 0], 2) - fg.d(c[:, 2], 0), fg.d(c[:, 1], 0) - fg.d(c[:, 0], 1)], axis=1)

        w = fg.phys(curl(ch))
        cr = np.stack([u[:, 1] * w[:, 2] - u[:, 2] * w[:, 1], u[:, 2] * w[:, 0] - u[:, 0] * w[:, 2], u[:, 0] * w[:, 1] - u[:, 1] * w[:, 0]], axis=1)
        ch2 = fg.hat(cr)
        # truncate BEFORE projecting is equivalent to after (projection is diagonal per mode); project here
        k2 = sum(k * k for k in fg.kap)
        kdot = sum(fg.kap[a] * ch2[:, a] for a in range(3))
        with np.errstate(divide="ignore", invalid="ignore"):
            fac = np.where(k2 > 0, kdot / np.where(k2 > 0, k2, 1.0), 0.0)
        out = np.stack([ch2[:, a] - fg.kap[a] * fac for a in range(3)], axis=1)
        if "kolmogorov" in name:
            Xf = ref.grid(D, fg.M, L)
            kk = 2 * np.pi * 1 / L
            f = np.zeros((1, 3) + (fg.M,) * 3)
            f[0, 0] = 0.8 * np.sin(kk * Xf[1])
            out = out + fg.hat(f)
        return out
    if name == "cahnhilliard":
        cube = fg.hat(u**3)
        return scale * sum(fg.d(cube, a, 2) for a in range(D))
    if name == "grayscott":
        f, kr = 0.035 * abs(scale), 0.055
        a, b = u[:, 0], u[:, 1]
        return fg.hat(np.stack([f * (1 - a) - a * b * b, -(f + kr) * b + a * b * b], axis=1))
    raise ValueError(name)


DERIV_ORDER = {"conv": 1, "gradnorm": 2, "poly": 0, "general": 2, "vort2d": 1, "proj3d": 1, "cahnhilliard": 2, "grayscott": 0}


# --------------------------------------------------------------------------- states


def lattice_states(nb, d):
    """all multisets of size <= d over range(nb): yields tuples of indices (possibly empty)"""
    for j in range(d + 1):
        for comb in itertools.combinations_with_replacement(range(nb), j):
            yield comb


def unit_term(u, rec):
    import jax
    import jax.numpy as jnp

    import exponax as ex

    name, D, N = u["term"], u["D"], u["N"]
    dims, chf, deg, frac = TERMS[name]
    C = chf(D)
    K = ref.band_limit(D, N, frac)
    rec.dim("term", name)
    rec.dim("D", D)
    rec.dim("N", N)
    rec.dim("K", K)
    dd = max(deg, 1)
    # band sanity (independent of the library): alias-free and not silently over-truncated
    rec.check((deg + 1) * K < N or K <= 0, "C03/band/alias_free", "documented band is not alias-free for this degree", N=N, K=K, degree=deg)
    rec.check(K >= math.floor(frac * (N // 2)) - 2, "C03/band/over_truncated", "documented band smaller than expected", N=N, K=K)
    M = 2 * dd * max(K, 0) + 1
    if M < 3:
        M = 3
    # in-band real basis (scalar modes), out-of-band basis
    full_basis = ref.real_basis(D, N, nyquist=True)
    inb = [b for b in full_basis if all(abs(v) <= K for v in b[0]) and not ref.is_nyquist(b[0], N)]
    outb = [b for b in full_basis if b not in inb]
    for (L, scale) in [tuple(c) for c in u["combos"]]:
        rec.dim("L", L)
        rec.dim("scale", scale)
        X = ref.grid(D, N, L)
        Bin = ref.basis_fields(D, N, L, inb, X) if inb else np.zeros((0,) + (N,) * D)
        Bout = ref.basis_fields(D, N, L, outb, X) if outb else np.zeros((0,) + (N,) * D)
        nbs = len(inb)
        n = nbs * C  # vector basis: (scalar basis function, channel)
        # vector basis fields lazily: index i -> (i // C scalar fn, i % C channel)
        term = build_term(ex, jnp, name, D, N, L, scale)
        fg = ref.FineGrid(D, N, L, K, M)
        call = jax.jit(jax.vmap(term))
        kapK = 2 * np.pi * max(K, 1) / L
        p = DERIV_ORDER[name.split("/")[0]]
        S = (abs(scale) + 1.0) * (1.0 + kapK) ** p
        wshape = (N,) * (D - 1) + (N // 2 + 1,)

        W = ref.rfft_wavenumbers(D, N)
        tern_n = 3 ** (N**D * C) if N**D * C <= 8 else 0
        total = lattice_size(n, dd) + 1 + len(outb) * C + tern_n + 3
        cs = min(u["chunk"], total)
        sampled = [False]

        def stream():
            """(state, tag, amplitude) for every explored state; generated lazily so that large lattices never sit in memory"""
            # 2. content outside the band (up to Nyquist) must be ignored: (v, v+e) for every out-of-band basis vector e in every channel
            rng = ref.weights(max(n, 1), u["seed"] + 7)
            v = np.zeros((C,) + (N,) * D)
            for i in range(n):
                v[i % C] += 0.6 * rng[i] * Bin[i // C] / max(1, nbs) ** 0.5
            amp_v = float(np.sum(np.abs(0.6 * rng[:n])) / max(1, nbs) ** 0.5) + 1.0
            yield v, "out_of_band_ignored", amp_v
            for e in range(len(outb)):
                for c in range(C):
                    s_ = v.copy()
                    s_[c] += 0.9 * Bout[e]
                    yield s_, "out_of_band_ignored", amp_v
            # 3. dense ternary lattice on the smallest grids (exhaustive 3^n), n <= 8 points total
            if tern_n:
                for pat in itertools.product((-1.0, 0.0, 1.0), repeat=N**D * C):
                    yield np.array(pat).reshape((C,) + (N,) * D), "ternary", float(N**D * C)
            # 4. full-band superposition states
            wts = ref.weights(len(full_basis) * C, u["seed"])
            Ball = ref.basis_fields(D, N, L, full_basis, X)
            for s3 in range(3):
                sup = np.zeros((C,) + (N,) * D)
                for i in range(len(full_basis) * C):
                    sup[i % C] += wts[(i * (s3 + 1)) % len(wts)] * Ball[i // C] / len(full_basis) ** 0.5
                yield sup, "full_band_superposition", float(np.sum(np.abs(wts)) / len(full_basis) ** 0.5)
            # 1. simplex lattice Lambda_d over the in-band vector basis (largest part, last)
            for comb in lattice_states(n, dd):
                st = np.zeros((C,) + (N,) * D)
                for i in comb:
                    st[i % C] += Bin[i // C]
                if not sampled[0] and len(comb) == dd:
                    rec.sample({"term": name, "D": D, "N": N, "K": K, "L": L, "lattice_point": [[list(inb[i // C][0]), inb[i // C][1], i % C] for i in comb]})
                    sampled[0] = True
                yield st, "lattice", float(len(comb))

        def process(states, tags, amps, a0):
            nreal = states.shape[0]
            st = states
            if nreal < cs:  # pad so that the compiled batch shape is reused
                st = np.concatenate([st, np.zeros((cs - nreal,) + st.shape[1:])])
            tol = 2e3 * EPS * S * np.maximum(amps, 1.0) ** dd * (N**D) * (N ** (D / 2))
            uh = np.fft.rfftn(st, axes=tuple(range(-D, 0)))
            got = np.asarray(call(jnp.asarray(uh)))[:nreal]
            want = fg.truncate_to_rfft(oracle(name, fg, fg.to_fine_hat(st[:nreal]), L, scale))
            rec.count(states=nreal, transitions=nreal, traces=nreal)
            if not rec.check(got.shape == want.shape, f"C03/{name}/shape", "output shape differs", D=D, N=N, got=list(got.shape), want=list(want.shape)):
                return
            err = np.max(np.abs(got - want).reshape(nreal, -1), axis=1)
            r = err / tol
            r = np.where(np.isfinite(r), r, np.inf)
            for tag in sorted(set(tags)):
                sel = np.where(tags == tag)[0]
                i = int(sel[np.argmax(r[sel])])
                j = np.unravel_index(np.argmax(np.abs(got[i] - want[i])), got[i].shape)
                rec.close(r[i], 1.0, f"C03/{name}/{tag}", "nonlinear term differs from the alias-free projection of the documented operator",
                          D=D, N=N, L=L, scale=scale, K=K, state=int(a0 + i), channel=int(j[0]), k=[int(W[d][j[1:]]) for d in range(D)],
                          got=complex(got[i][j]), want=complex(want[i][j]), abs_err=float(err[i]))
            rec.outcome_array(got[nreal // 2].ravel()[:: max(1, got[0].size // 8)])

        bs, bt, ba, a0 = [], [], [], 0
        for st_, tag_, amp_ in stream():
            bs.append(st_)
            bt.append(tag_)
            ba.append(amp_)
            if len(bs) == cs:
                process(np.stack(bs), np.array(bt), np.array(ba), a0)
                a0 += len(bs)
                bs, bt, ba = [], [], []
        if bs:
            process(np.stack(bs), np.array(bt), np.array(ba), a0)
        # 5. zero outside the band: implied by comparison with the oracle (which is zero there); record explicitly for one state
        rec.dim("lattice_points", lattice_size(n, dd))


def run_unit(u, rec):
    unit_term(u, rec)

"""
C05 - spectral differential operators are exact on band-limited fields.

Lift L: derivative / Laplace / gradient-inner-product / Poisson are linear, so the full real Fourier basis
below Nyquist (every cos and sin) decides all Nyquist-free trigonometric polynomials of a configuration.
Oracles: analytic derivatives of cos(kappa.x + phase), analytic symbols, and for Poisson the defining
equation checked with an independent (numpy) spectral operator on every grid delta.
"""

import itertools
import math

import numpy as np

from mc import ref

EPS = 2.3e-16
RULE = ("one state per (D, N, L, C, derivative order, basis function) / (operator, order, velocity) / (Poisson order, C, basis function or delta); "
        "transition = one library call; distinct_nontrivial = distinct observed output arrays")
ASSUMPTIONS = ["lift L (linearity of FFT-multiplier-inverse FFT), probed by a superposition state", "bounded N and a finite lattice of L values"]
LS = [1.0, 2 * math.pi, 0.37, 10.0]
VELS = {1: [[1.0], [-0.7]], 2: [[1.0, 1.0], [0.7, -1.3], [0.0, 2.0]], 3: [[1.0, 1.0, 1.0], [0.7, -1.3, 0.4], [0.0, 0.0, -2.0]]}


def bounds(tier):
    if tier == "quick":
        return {"N": {1: list(range(3, 17)), 2: list(range(3, 8)), 3: [3, 4, 5]}, "L": LS, "orders": list(range(1, 7)), "C": [1, 2, 3]}
    return {"N": {1: list(range(3, 25)), 2: list(range(3, 11)), 3: list(range(3, 8))}, "L": LS, "orders": list(range(1, 7)), "C": [1, 2, 3]}


def units(tier, seed):
    b = bounds(tier)
    us = []
    for D in (1, 2, 3):
        for N in b["N"][D]:
            us.append({"name": f"deriv/D{D}/N{N}", "kind": "deriv", "D": D, "N": N, "cost": N ** (2 * D)})
            us.append({"name": f"ops/D{D}/N{N}", "kind": "ops", "D": D, "N": N, "cost": N ** (2 * D) / 2})
    return us


def unit_deriv(u, rec):
    import jax
    import jax.numpy as jnp

    import exponax as ex

    D, N = u["D"], u["N"]
    rec.dim("D", D)
    rec.dim("N", N)
    basis = ref.real_basis(D, N, nyquist=False)
    nb = len(basis)
    w = ref.weights(nb, u["seed"])
    for L in LS:
        rec.dim("L", L)
        X = ref.grid(D, N, L)
        U = ref.basis_fields(D, N, L, basis, X)  # (nb, N..)
        kap = np.array([ref.kappa(k, L) for k, _ in basis])  # (nb, D)
        ph0 = np.array([0.0 if cs == "c" else -np.pi / 2 for _, cs in basis])
        arg = np.stack([sum(kap[i, d] * X[d] for d in range(D)) + ph0[i] for i in range(nb)])  # (nb, N..)
        for order in range(1, 7):
            rec.dim("order", order)
            # analytic: d^order/dx_d^order cos(arg) = kap_d^order cos(arg + order*pi/2)
            EXP = np.stack([np.stack([kap[i, d] ** order * np.cos(arg[i] + order * np.pi / 2) for d in range(D)]) for i in range(nb)])  # (nb, D, N..)
            scale = np.array([max(1e-300, np.max(np.abs(kap[i])) ** order) for i in range(nb)])
            # FFT rounding noise (eps*|u|) in EVERY mode is amplified by up to kappa_max^order, hence the grid's largest wavenumber sets the floor
            tolk = 2e3 * EPS * np.maximum(scale, ((2 * np.pi / L) * (N // 2)) ** order)
            # C = 1 branch: (1, N..) -> (D, N..)
            got = np.asarray(jax.vmap(lambda f: ex.derivative(f, L, order=order))(jnp.asarray(U[:, None])))
            rec.count(states=nb, transitions=nb, traces=nb)
            if rec.check(got.shape == EXP.shape, "C05/derivative/C1/shape", "derivative of a single-channel field must have shape (D, N..)", D=D, N=N, got=list(got.shape)):
                err = np.max(np.abs(got - EXP).reshape(nb, -1), axis=1)
                i = int(np.argmax(err / tolk))
                rec.close(err[i] / tolk[i], 1.0, "C05/derivative/C1", "spectral derivative differs from the analytic derivative", D=D, N=N, L=L, order=order,
                          k=basis[i][0], cs=basis[i][1], abs_err=float(err[i]))
            # superposition
            gs = np.asarray(ex.derivative(jnp.asarray(np.tensordot(w, U, axes=1)[None]), L, order=order))
            es = np.tensordot(w, EXP, axes=1)
            rec.count(states=1, transitions=1, traces=1)
            rec.close(np.max(np.abs(gs - es)), float(np.sum(np.abs(w) * tolk)), "C05/derivative/superposition", "derivative of a superposition", D=D, N=N, L=L, order=order)
            # C = 2, 3 branch: (C, N..) -> (C, D, N..); channel c holds basis function (i + c) mod nb
            for C in (2, 3):
                idx = np.array([[(i + 5 * c) % nb for c in range(C)] for i in range(nb)])
                UC = U[idx]  # (nb, C, N..)
                gc = np.asarray(jax.vmap(lambda f: ex.derivative(f, L, order=order))(jnp.asarray(UC)))
                EC = EXP[idx]  # (nb, C, D, N..)
                rec.count(states=nb, transitions=nb, traces=nb)
                if rec.check(gc.shape == EC.shape, f"C05/derivative/C{C}/shape", "derivative of a C-channel field must have shape (C, D, N..)", D=D, N=N, got=list(gc.shape)):
                    err = np.max(np.abs(gc - EC).reshape(nb, -1), axis=1)
                    tt = np.max(tolk[idx], axis=1)
                    i = int(np.argmax(err / tt))
                    rec.close(err[i] / tt[i], 1.0, f"C05/derivative/C{C}", "multi-channel spectral derivative differs from the analytic derivative",
                              D=D, N=N, L=L, order=order, k=basis[i][0], abs_err=float(err[i]))
            if L == LS[0]:
                rec.outcome_array(got[: min(nb, 3)])
    rec.sample({"D": D, "N": N, "basis": nb, "orders": [1, 6], "L": LS, "first_modes": [list(b[0]) + [b[1]] for b in basis[:4]]})


def unit_ops(u, rec):
    import jax
    import jax.numpy as jnp

    import exponax as ex

    D, N = u["D"], u["N"]
    rec.dim("D", D)
    rec.dim("N", N)
    W = ref.rfft_wavenumbers(D, N)
    nyq = np.zeros(W.shape[1:], dtype=bool)
    if N % 2 == 0:
        for d in range(D):
            nyq |= np.abs(W[d]) == N // 2
    for L in LS:
        kapW = W * (2 * np.pi / L)
        DO = ex.spectral.build_derivative_operator(D, L, N)
        for order in (0, 2, 4, 6):
            op = np.asarray(ex.spectral.build_laplace_operator(DO, order=order))
            want = np.sum((1j * kapW) ** order, axis=0) if order > 0 else np.ones(W.shape[1:])
            rec.count(states=int(want.size), transitions=1, traces=1)
            if rec.check(op.shape == (1,) + W.shape[1:], "C05/laplace/shape", "laplace operator shape", D=D, N=N, got=list(op.shape)):
                sc = np.sum(np.abs(kapW) ** order, axis=0) + 1.0
                e = np.abs(op[0] - want) / (1e3 * EPS * sc)
                j = np.unravel_index(np.argmax(e), e.shape)
                rec.close(e[j], 1.0, f"C05/laplace/order{order}", "Laplace operator differs from sum_d (i kappa_d)^order", D=D, N=N, L=L,
                          k=[int(W[d][j]) for d in range(D)], got=complex(op[0][j]), want=complex(want[j]))
                rec.outcome_array(op.ravel()[:12])
        for order in (1, 3, 5):
            for vel in VELS[D]:
                op = np.asarray(ex.spectral.build_gradient_inner_product_operator(DO, jnp.asarray(vel), order=order))
                want = sum(vel[d] * (1j * kapW[d]) ** order for d in range(D))
                rec.count(states=int(want.size), transitions=1, traces=1)
                if rec.check(op.shape == (1,) + W.shape[1:], "C05/gradient_inner/shape", "operator shape", D=D, N=N, got=list(op.shape)):
                    sc = sum(abs(vel[d]) * np.abs(kapW[d]) ** order for d in range(D)) + 1.0
                    e = np.where(nyq, 0.0, np.abs(op[0] - want) / (1e3 * EPS * sc))
                    j = np.unravel_index(np.argmax(e), e.shape)
                    rec.close(e[j], 1.0, f"C05/gradient_inner/order{order}", "velocity . gradient^order operator differs from sum_d c_d (i kappa_d)^order",
                              D=D, N=N, L=L, velocity=vel, k=[int(W[d][j]) for d in range(D)], got=complex(op[0][j]), want=complex(want[j]))
        # Poisson
        basis = ref.real_basis(D, N, nyquist=False)
        nb = len(basis)
        X = ref.grid(D, N, L)
        U = ref.basis_fields(D, N, L, basis, X)
        Dl = ref.deltas(D, N)
        for order in (2, 4):
            ps = ex.poisson.Poisson(D, L, N, order=order) if hasattr(ex, "poisson") else None
            rec.dim("poisson_order", order)
            # analytic solution on basis functions
            den = np.array([np.sum(ref.kappa(k, L) ** order) for k, _ in basis])
            sign = 1.0 if order == 2 else -1.0
            EXP = np.stack([(sign * U[i] / den[i]) if den[i] > 0 else np.zeros_like(U[i]) for i in range(nb)])
            for C in (1, 2, 3):
                idx = np.array([[(i + 3 * c) % nb for c in range(C)] for i in range(nb)])
                got = np.asarray(jax.vmap(ps)(jnp.asarray(U[idx])))
                rec.count(states=nb, transitions=nb, traces=nb)
                if rec.check(got.shape == (nb, C) + (N,) * D, "C05/poisson/shape", "Poisson output shape", D=D, N=N, C=C, got=list(got.shape)):
                    sc = np.max(np.abs(EXP[idx]).reshape(nb, -1), axis=1) + 1e-300
                    err = np.max(np.abs(got - EXP[idx]).reshape(nb, -1), axis=1)
                    sc = np.maximum(sc, np.max(1.0 / np.where(den > 0, den, np.inf)))
                    i = int(np.argmax(err / sc))
                    rec.close(err[i] / sc[i], 2e3 * EPS * N, f"C05/poisson/order{order}/basis", "Poisson solution differs from f_hat/|kappa|^2 (order 2) / -f_hat/sum kappa^4 (order 4)",
                              D=D, N=N, L=L, C=C, k=basis[i][0], cs=basis[i][1])
            # defining equation on every delta (all states, Nyquist content included: even orders are well defined there)
            got = np.asarray(jax.vmap(ps)(jnp.asarray(Dl[:, None])))[:, 0]
            rec.count(states=len(Dl), transitions=len(Dl), traces=len(Dl))
            kfull = [np.fft.fftfreq(N, 1.0 / N) * (2 * np.pi / L)] * D
            sym = np.zeros((N,) * D, dtype=complex)
            for d in range(D):
                shape = [1] * D
                shape[d] = N
                sym = sym + (1j * kfull[d].reshape(shape)) ** order
            axes = tuple(range(1, D + 1))
            lhs = np.real(np.fft.ifftn(sym * np.fft.fftn(got, axes=axes), axes=axes))  # Laplacian / sum of 4th derivatives of the solution
            rhs = -(Dl - Dl.reshape(len(Dl), -1).mean(axis=1).reshape((-1,) + (1,) * D))
            rec.close(np.max(np.abs(lhs - rhs)), 1e4 * EPS * N**2, f"C05/poisson/order{order}/equation",
                      "operator applied to the Poisson solution is not minus the zero-mean right-hand side", D=D, N=N, L=L)
            rec.close(np.max(np.abs(got.reshape(len(Dl), -1).mean(axis=1))), 1e3 * EPS * np.max(np.abs(got)) + 1e-300, f"C05/poisson/order{order}/zero_mean",
                      "Poisson solution does not have zero mean", D=D, N=N, L=L)
            rec.outcome_array(got[0])
    rec.sample({"D": D, "N": N, "operators": ["laplace 0,2,4,6", "gradient inner 1,3,5", "Poisson 2,4"], "velocities": VELS[D], "deltas": N**D})


def run_unit(u, rec):
    {"deriv": unit_deriv, "ops": unit_ops}[u["kind"]](u, rec)

"""
C18 - initial-condition generators honour their documented contract.

Lift D over options and wrappers: every public generator x D x odd/even N x keys x the FULL product of
normalisation flags (valid => realised exactly, invalid => ValueError) x offsets, cutoffs, limits, scales,
exponents x all wrapper nestings of depth <= 2.  Oracles: shape, finiteness, determinism in the key, statistics
realised exactly, Fourier content (own DFT), power-law / diffusion shaping of the white noise of the SAME key,
agreement between the function form gen_ic_fun(key)(grid) and the sampled form, explicit formulas for the
deterministic IC classes.
"""

import itertools
import math

import numpy as np

from mc import ref

EPS = 2.3e-16
RULE = ("one state per (generator, options, D, N, key); transitions = generator calls (twice per key for determinism, plus function form / inner generator "
        "where applicable); distinct_nontrivial = distinct generated states")
ASSUMPTIONS = [
    "keys 0..K (+ seed-dependent extra key); the contract is per draw, so every draw is checked exactly (no statistics over draws)",
    "spectral claims are checked on non-Nyquist modes (the inverse real FFT discards the imaginary part of self-conjugate modes)",
]
FLAGS = list(itertools.product((False, True), repeat=3))  # (zero_mean, std_one, max_one)


def bounds(tier):
    if tier == "quick":
        return {"N": {1: [9, 16], 2: [7, 8], 3: [6]}, "keys": [0, 1, 2], "flags": "all 8 (zero_mean, std_one, max_one) combinations"}
    return {"N": {1: [8, 9, 16, 33], 2: [7, 8, 12], 3: [6, 7]}, "keys": [0, 1, 2, 3, 4, 5], "flags": "all 8 (zero_mean, std_one, max_one) combinations"}


GENS = ["TruncatedFourierSeries", "GaussianRandomField", "DiffusedNoise", "RandomDiscontinuities", "RandomGaussianBlobs", "RandomSineWaves1d", "WhiteNoise",
        "Clamping", "Scaled", "MultiChannel", "explicit"]


def units(tier, seed):
    b = bounds(tier)
    us = []
    for g in GENS:
        for D in (1, 2, 3):
            if g == "RandomSineWaves1d" and D > 1:
                continue
            us.append({"name": f"{g}/D{D}", "gen": g, "D": D, "Ns": b["N"][D], "keys": b["keys"], "cost": 10 * D})
    return us


def valid(zero_mean, std_one, max_one):
    return not ((not zero_mean) and std_one) and not (std_one and max_one)


def basic(rec, name, out, C, D, N, info):
    ok = rec.check(tuple(out.shape) == (C,) + (N,) * D, f"C18/{name}/shape", "generated state does not have shape (C, N, ..., N) with one channel per generated field",
                   got=list(out.shape), want=[C] + [N] * D, **info)
    rec.check(bool(np.all(np.isfinite(out))), f"C18/{name}/finite", "generated state is not finite", **info)
    return ok


def stats(rec, name, a, zero_mean, std_one, max_one, info):
    n = a.size
    if zero_mean:
        rec.close(abs(float(np.mean(a))), 1e3 * EPS * max(1.0, float(np.max(np.abs(a)))), f"C18/{name}/zero_mean", "zero_mean is not realised", mean=float(np.mean(a)), **info)
    if std_one:
        rec.close(abs(float(np.std(a)) - 1.0), 1e3 * EPS, f"C18/{name}/std_one", "unit standard deviation is not realised", std=float(np.std(a)), **info)
    if max_one:
        rec.close(abs(float(np.max(np.abs(a))) - 1.0), 1e3 * EPS, f"C18/{name}/max_one", "unit maximum is not realised", max=float(np.max(np.abs(a))), **info)


def twice(rec, name, gen, N, key, info):
    import jax

    k = jax.random.PRNGKey(key)
    a = np.asarray(gen(N, key=k))
    b = np.asarray(gen(N, key=jax.random.PRNGKey(key)))
    rec.count(states=1, transitions=2, traces=1)
    rec.check(a.shape == b.shape and np.array_equal(a, b, equal_nan=True), f"C18/{name}/deterministic", "the same key gives different states", **info)
    rec.outcome_array(a)
    return a


def ranges_section(u, rec, ic, ex, jax, jnp, g, D, keys):
    """requested (non-default) parameter ranges: every drawn parameter of the function form lies inside the range the constructor was given
    (positions / variances of blobs scale with the domain extent as documented), and the sampled form is that draw"""
    N = u["Ns"][0]
    for L in (1.0, 2.5):
        for key in keys:
            info = dict(D=D, N=N, L=L, key=key)
            k = jax.random.PRNGKey(key)

            def inside(x, lo, hi):
                x = np.asarray(x, dtype=float)
                return bool(np.all(x >= lo - 1e-12) and np.all(x <= hi + 1e-12))

            if g == "RandomSineWaves1d":
                for ar, pr in (((2.0, 3.0), (0.1, 0.2)), ((-0.5, -0.25), (3.0, 6.0))):
                    gen = ic.RandomSineWaves1d(1, domain_extent=L, cutoff=4, amplitude_range=ar, phase_range=pr)
                    f = gen.gen_ic_fun(key=k)
                    rec.count(states=1, transitions=1, traces=1)
                    rec.check(inside(f.amplitudes, *ar), f"C18/{g}/amplitude_range", "drawn amplitude outside the requested range", amplitude_range=list(ar), got=np.asarray(f.amplitudes).tolist(), **info)
                    rec.check(inside(f.phases, *pr), f"C18/{g}/phase_range", "drawn phase outside the requested range", phase_range=list(pr), got=np.asarray(f.phases).tolist(), **info)
                    rec.outcome("ranges", g, L, key, ar, float(np.asarray(f.amplitudes)[0]))
            elif g == "RandomDiscontinuities":
                for vr in ((2.0, 3.0), (-7.0, -6.5)):
                    gen = ic.RandomDiscontinuities(D, domain_extent=L, num_discontinuities=1, value_range=vr)
                    a = np.asarray(gen(N, key=k))
                    rec.count(states=1, transitions=1, traces=1)
                    nz = a[np.abs(a) > 0]
                    rec.check(inside(nz, *vr) and len(np.unique(np.round(nz, 10))) <= 1, f"C18/{g}/value_range", "value of the discontinuity outside the requested range", value_range=list(vr),
                              got=sorted(set(np.round(nz, 6).tolist()))[:4], **info)
                    rec.outcome("ranges", g, L, key, vr, float(nz[0]) if nz.size else 0.0)
            elif g == "RandomGaussianBlobs":
                for posr, varr in (((0.1, 0.2), (0.02, 0.03)), ((0.7, 0.9), (0.001, 0.002))):
                    gen = ic.RandomGaussianBlobs(D, domain_extent=L, num_blobs=2, position_range=posr, variance_range=varr)
                    f = gen.gen_ic_fun(key=k)
                    rec.count(states=1, transitions=1, traces=1)
                    for blob in f.blob_list:
                        cov = np.asarray(blob.covariance)
                        rec.check(inside(blob.position, posr[0] * L, posr[1] * L), f"C18/{g}/position_range", "blob position outside the requested range (scaled by the domain extent)",
                                  position_range=list(posr), got=np.asarray(blob.position).tolist(), **info)
                        rec.check(inside(np.diag(cov), varr[0] * L, varr[1] * L) and np.allclose(cov, np.diag(np.diag(cov))), f"C18/{g}/variance_range",
                                  "blob variance outside the requested range (scaled by the domain extent) / covariance not diagonal", variance_range=list(varr), got=np.diag(cov).tolist(), **info)
                    rec.outcome("ranges", g, L, key, posr, float(np.asarray(f.blob_list[0].position)[0]))


def run_unit(u, rec):
    import jax
    import jax.numpy as jnp

    import exponax as ex

    ic = ex.ic
    g, D = u["gen"], u["D"]
    keys = list(u["keys"]) + [100 + u["seed"]]
    rec.dim("generator", g)
    rec.dim("D", D)
    ranges_section(u, rec, ic, ex, jax, jnp, g, D, keys)
    for N in u["Ns"]:
        rec.dim("N", N)
        W = ref.rfft_wavenumbers(D, N)
        nyq = np.zeros(W.shape[1:], dtype=bool)
        if N % 2 == 0:
            for d in range(D):
                nyq |= np.abs(W[d]) == N // 2
        axes = tuple(range(-D, 0))
        if g == "TruncatedFourierSeries":
            for cutoff, (std_one, max_one), off in itertools.product((1, 2, 4), ((False, False), (True, False), (False, True)), ((0.0, 0.0), (2.0, 2.0), (-1.0, 0.5))):
                if off != (0.0, 0.0) and std_one:
                    continue
                gen = ic.RandomTruncatedFourierSeries(D, cutoff=cutoff, offset_range=off, std_one=std_one, max_one=max_one)
                prev = None
                for key in keys:
                    info = dict(D=D, N=N, cutoff=cutoff, std_one=std_one, max_one=max_one, offset_range=list(off), key=key)
                    a = twice(rec, g, gen, N, key, info)
                    if not basic(rec, g, a, 1, D, N, info):
                        continue
                    if off == (0.0, 0.0):
                        stats(rec, g, a, True, std_one, max_one, info)
                    elif not max_one:
                        m = float(np.mean(a))
                        rec.check(off[0] - 1e-9 <= m <= off[1] + 1e-9, f"C18/{g}/offset", "the mean is not inside the requested offset range", mean=m, **info)
                    else:
                        stats(rec, g, a, False, False, True, info)
                    ah = np.fft.rfftn(a[0], axes=axes) / N**D
                    outside = np.zeros(W.shape[1:], dtype=bool)
                    for d in range(D):
                        outside |= np.abs(W[d]) > cutoff
                    rec.close(float(np.max(np.abs(np.where(outside, ah, 0.0)))), 1e3 * EPS * max(1.0, float(np.max(np.abs(a)))), f"C18/{g}/cutoff",
                              "Fourier content beyond the cutoff", **info)
                    nonmean = np.sum(np.abs(W), axis=0) > 0
                    inside_nz = np.abs(np.where(~outside & ~nyq & nonmean, ah, 0.0)) > 1e-12
                    rec.check(int(inside_nz.sum()) >= 1, f"C18/{g}/content", "no Fourier content inside the cutoff", **info)
                    if prev is not None:
                        rec.check(not np.array_equal(prev, a), f"C18/{g}/key_sensitive", "different keys give the same state", **info)
                    prev = a
            rec.sample({"generator": g, "D": D, "N": N, "options": "cutoff x (std_one,max_one) x offset_range", "keys": keys})
        elif g in ("GaussianRandomField", "DiffusedNoise"):
            for (zm, so, mo), par, L in itertools.product(FLAGS, ((3.0, 1e-3), (1.5, 5e-3)), (1.0, 2.5, 30.0)):
                kw = dict(domain_extent=L, zero_mean=zm, std_one=so, max_one=mo)
                if g == "GaussianRandomField":
                    kw["powerlaw_exponent"] = par[0]
                else:
                    kw["intensity"] = par[1]
                cls = getattr(ic, g)
                if not valid(zm, so, mo):
                    rec.count(states=1, transitions=1, traces=1)
                    try:
                        cls(D, **kw)
                        rec.check(False, f"C18/{g}/invalid_flags_accepted", "an invalid normalisation combination was accepted", flags=[zm, so, mo])
                    except ValueError:
                        rec.check(True, "", "")
                    continue
                gen = cls(D, **kw)
                for key in keys:
                    info = dict(D=D, N=N, L=L, flags=[zm, so, mo], par=par[0] if g == "GaussianRandomField" else par[1], key=key)
                    a = twice(rec, g, gen, N, key, info)
                    if not basic(rec, g, a, 1, D, N, info):
                        continue
                    stats(rec, g, a, zm, so, mo, info)
                    # shaping of the white noise of the SAME key
                    w = np.asarray(ic.WhiteNoise(D)(N, key=jax.random.PRNGKey(key)))
                    wh = np.fft.rfftn(w[0], axes=axes)
                    ah = np.fft.rfftn(a[0], axes=axes)
                    kap = (2 * np.pi / L) * np.sqrt(np.sum(W.astype(float) ** 2, axis=0))
                    with np.errstate(divide="ignore"):
                        shape_fn = np.where(kap > 0, kap ** (-par[0] / 2.0), 1.0) if g == "GaussianRandomField" else np.exp(-par[1] * kap**2)
                    sel = (~nyq) & (kap > 0)
                    # normalisation rescales by one global positive factor: compare ratios to the first selected mode
                    target = np.abs(wh) * shape_fn
                    idx = np.argwhere(sel)
                    if len(idx):
                        j0 = tuple(idx[np.argmax(target[sel])])
                        fac = np.abs(ah[j0]) / target[j0]
                        if not (so or mo):
                            rec.close(abs(fac - 1.0), 1e4 * EPS * N**D, f"C18/{g}/spectrum_scale", "unnormalised draw is not white noise times the documented shaping", **info)
                        rec.close(float(np.max(np.abs(np.where(sel, np.abs(ah) - fac * target, 0.0)))) / max(1e-300, float(np.max(target[sel])) * fac), 1e4 * EPS * N**D,
                                  f"C18/{g}/spectrum_shape", "spectrum is not the white-noise spectrum of the same key shaped by the documented law", **info)
            rec.sample({"generator": g, "D": D, "N": N, "flags": "all 8", "L": [1.0, 2.5], "keys": keys})
        elif g == "RandomDiscontinuities":
            for (zm, so, mo), nd, L in itertools.product(FLAGS, (1, 3), (1.0, 2.5)):
                if not valid(zm, so, mo):
                    rec.count(states=1, transitions=1, traces=1)
                    try:
                        ic.RandomDiscontinuities(D, zero_mean=zm, std_one=so, max_one=mo)
                        rec.check(False, f"C18/{g}/invalid_flags_accepted", "an invalid normalisation combination was accepted", flags=[zm, so, mo])
                    except ValueError:
                        rec.check(True, "", "")
                    continue
                gen = ic.RandomDiscontinuities(D, domain_extent=L, num_discontinuities=nd, zero_mean=zm, std_one=so, max_one=mo)
                raw_gen = ic.RandomDiscontinuities(D, domain_extent=L, num_discontinuities=nd)
                for key in keys:
                    info = dict(D=D, N=N, L=L, flags=[zm, so, mo], num=nd, key=key)
                    raw = np.asarray(raw_gen(N, key=jax.random.PRNGKey(key)))
                    if float(np.std(raw)) < 1e-12:
                        # degenerate draw (no grid point inside any box => constant field): every normalisation is 0/0, outside the contract
                        rec.dim("skipped_degenerate_draw", f"D={D}|N={N}|L={L}|num={nd}|key={key}")
                        continue
                    a = twice(rec, g, gen, N, key, info)
                    if not basic(rec, g, a, 1, D, N, info):
                        continue
                    stats(rec, g, a, zm, so, mo, info)
                    f = gen.gen_ic_fun(key=jax.random.PRNGKey(key))
                    b2 = np.asarray(f(ex.make_grid(D, L, N)))
                    rec.count(transitions=1)
                    rec.close(float(np.max(np.abs(a - b2))) if a.shape == b2.shape else np.inf, 1e3 * EPS * max(1.0, float(np.max(np.abs(a)))), f"C18/{g}/function_form",
                              "gen_ic_fun(key)(grid) differs from the sampled form of the same draw", **info)
                    if not (zm or so or mo):
                        # piecewise constant: at most 2^nd distinct values, all sums of the box values
                        rec.check(len(np.unique(np.round(a, 10))) <= 2**nd, f"C18/{g}/piecewise_constant", "state is not piecewise constant with <= 2^n values", **info)
            rec.sample({"generator": g, "D": D, "N": N, "flags": "all 8", "num_discontinuities": [1, 3], "keys": keys})
        elif g == "RandomGaussianBlobs":
            for nb, oc, L in itertools.product((1, 3), (False, True), (1.0, 2.5)):
                gen = ic.RandomGaussianBlobs(D, domain_extent=L, num_blobs=nb, one_complement=oc)
                for key in keys:
                    info = dict(D=D, N=N, L=L, num_blobs=nb, one_complement=oc, key=key)
                    a = twice(rec, g, gen, N, key, info)
                    if not basic(rec, g, a, 1, D, N, info):
                        continue
                    rec.check(float(a.min()) >= -1e-12 and float(a.max()) <= 1 + 1e-12, f"C18/{g}/range", "blob state outside [0, 1]", **info)
                    f = gen.gen_ic_fun(key=jax.random.PRNGKey(key))
                    G = np.asarray(ex.make_grid(D, L, N))
                    b2 = np.asarray(f(jnp.asarray(G)))
                    rec.count(transitions=1)
                    rec.close(float(np.max(np.abs(a - b2))), 1e3 * EPS, f"C18/{g}/function_form", "gen_ic_fun(key)(grid) differs from the sampled form", **info)
                    # explicit formula from the drawn parameters
                    want = np.zeros((N,) * D)
                    for blob in f.blob_list:
                        pos, cov = np.asarray(blob.position), np.asarray(blob.covariance)
                        d = G - pos.reshape((D,) + (1,) * D)
                        q = np.einsum("i...,ij,j...->...", d, np.linalg.inv(cov), d)
                        bl = np.exp(-0.5 * q)
                        want += (1 - bl) if oc else bl
                        rec.check(bool(np.all(pos >= 0.4 * L - 1e-9) and np.all(pos <= 0.6 * L + 1e-9)), f"C18/{g}/position_range", "blob position outside the documented range", **info)
                    rec.close(float(np.max(np.abs(a[0] - want / nb))), 1e3 * EPS, f"C18/{g}/formula", "state is not the average of exp(-d^T S^-1 d / 2) over the drawn blobs", **info)
            rec.sample({"generator": g, "D": D, "N": N, "num_blobs": [1, 3], "one_complement": [False, True], "keys": keys})
        elif g == "RandomSineWaves1d":
            for cutoff, (so, mo), off, L in itertools.product((1, 3, 5), ((False, False), (True, False), (False, True)), ((0.0, 0.0), (0.5, 0.5)), (1.0, 2.5)):
                if off != (0.0, 0.0) and so:
                    continue
                gen = ic.RandomSineWaves1d(1, domain_extent=L, cutoff=cutoff, offset_range=off, std_one=so, max_one=mo)
                for key in keys:
                    info = dict(N=N, L=L, cutoff=cutoff, std_one=so, max_one=mo, offset=list(off), key=key)
                    a = twice(rec, g, gen, N, key, info)
                    if not basic(rec, g, a, 1, 1, N, info):
                        continue
                    stats(rec, g, a, False, so, mo, info)
                    f = gen.gen_ic_fun(key=jax.random.PRNGKey(key))
                    x = np.asarray(ex.make_grid(1, L, N))
                    want = sum(float(am) * np.sin(int(k) * (2 * np.pi / L) * x + float(p)) for am, k, p in zip(np.asarray(f.amplitudes), np.asarray(f.wavenumbers), np.asarray(f.phases))) + float(f.offset)
                    if so:
                        want = want / np.std(want)
                    if mo:
                        want = want / np.max(np.abs(want))
                    rec.count(transitions=1)
                    rec.close(float(np.max(np.abs(a - want))), 1e3 * EPS * max(1.0, float(np.max(np.abs(want)))), f"C18/{g}/formula", "state is not the documented sine series of the drawn parameters", **info)
                    if not (so or mo) and 2 * cutoff < N:
                        ah = np.fft.rfft(a[0]) / N
                        rec.close(float(np.max(np.abs(ah[cutoff + 1:]))) if cutoff + 1 < len(ah) else 0.0, 1e3 * EPS * cutoff, f"C18/{g}/cutoff", "Fourier content beyond the cutoff", **info)
                        rec.close(abs(float(np.mean(a)) - off[0]), 1e3 * EPS * cutoff, f"C18/{g}/offset", "mean differs from the requested offset", **info)
            rec.sample({"generator": g, "N": N, "cutoff": [1, 3, 5], "keys": keys})
        elif g == "WhiteNoise":
            for std in (1.0, 0.3):
                gen = ic.WhiteNoise(D, std=std)
                prev = None
                for key in keys:
                    info = dict(D=D, N=N, std=std, key=key)
                    a = twice(rec, g, gen, N, key, info)
                    basic(rec, g, a, 1, D, N, info)
                    base = np.asarray(ic.WhiteNoise(D)(N, key=jax.random.PRNGKey(key)))
                    rec.close(float(np.max(np.abs(a - std * base))), 1e3 * EPS * 6, f"C18/{g}/std_scale", "std does not scale the unit white noise of the same key", **info)
                    if prev is not None:
                        rec.check(not np.array_equal(prev, a), f"C18/{g}/key_sensitive", "different keys give the same noise", **info)
                    prev = a
            rec.sample({"generator": g, "D": D, "N": N, "std": [1.0, 0.3], "keys": keys})
        elif g in ("Clamping", "Scaled", "MultiChannel"):
            inners = {"tfs": ic.RandomTruncatedFourierSeries(D, cutoff=2), "grf": ic.GaussianRandomField(D), "blobs": ic.RandomGaussianBlobs(D), "disc": ic.RandomDiscontinuities(D, num_discontinuities=2)}
            if g == "Clamping":
                for (iname, inner), lim in itertools.product(inners.items(), ((0.0, 1.0), (-2.0, 3.0), (0.25, 0.5))):
                    for wrap in ("plain", "scaled_inside", "clamped_inside"):
                        ig = inner if wrap == "plain" else (ic.ScaledICGenerator(inner, -2.5) if wrap == "scaled_inside" else ic.ClampingICGenerator(inner, (5.0, 6.0)))
                        gen = ic.ClampingICGenerator(ig, limits=lim)
                        for key in keys:
                            info = dict(D=D, N=N, inner=iname, nesting=wrap, limits=list(lim), key=key)
                            src = np.asarray(ig(N, key=jax.random.PRNGKey(key)))
                            if not np.all(np.isfinite(src)) or float(np.max(src) - np.min(src)) < 1e-9:
                                # degenerate inner draw (spatially constant, e.g. no grid point inside any box): min-max rescaling is 0/0 by construction,
                                # "limits reached at both ends" cannot hold - outside the contract
                                rec.dim("skipped_degenerate_draw", f"{iname}|D={D}|N={N}|key={key}")
                                continue
                            a = twice(rec, g, gen, N, key, info)
                            if not basic(rec, g, a, 1, D, N, info):
                                continue
                            rec.close(abs(float(a.min()) - lim[0]), 1e3 * EPS * 4, f"C18/{g}/lower_limit", "clamped state does not reach the lower limit", got=float(a.min()), **info)
                            rec.close(abs(float(a.max()) - lim[1]), 1e3 * EPS * 4, f"C18/{g}/upper_limit", "clamped state does not reach the upper limit", got=float(a.max()), **info)
                            want = (src - src.min()) / (src.max() - src.min()) * (lim[1] - lim[0]) + lim[0]
                            rec.close(float(np.max(np.abs(a - want))), 1e3 * EPS * 8, f"C18/{g}/affine", "clamping is not the affine map of the inner draw onto the limits", **info)
            elif g == "Scaled":
                for (iname, inner), sc in itertools.product(inners.items(), (2.0, -0.5, 0.0)):
                    for wrap in ("plain", "scaled_inside", "clamped_inside"):
                        ig = inner if wrap == "plain" else (ic.ScaledICGenerator(inner, 3.0) if wrap == "scaled_inside" else ic.ClampingICGenerator(inner, (-1.0, 2.0)))
                        gen = ic.ScaledICGenerator(ig, sc)
                        for key in keys:
                            info = dict(D=D, N=N, inner=iname, nesting=wrap, scale=sc, key=key)
                            src = np.asarray(ig(N, key=jax.random.PRNGKey(key)))
                            if not np.all(np.isfinite(src)):
                                rec.dim("skipped_degenerate_draw", f"{iname}|D={D}|N={N}|key={key}")
                                continue  # clamped-inside nesting of a constant draw (0/0), see Clamping
                            a = twice(rec, g, gen, N, key, info)
                            if not basic(rec, g, a, 1, D, N, info):
                                continue
                            rec.close(float(np.max(np.abs(a - sc * src))), 1e3 * EPS * max(1.0, float(np.max(np.abs(src)))) * 4, f"C18/{g}/scale", "scaled state is not scale * inner draw", **info)
                            if iname in ("blobs", "disc") and wrap != "clamped_inside":
                                L = 1.0
                                b2 = np.asarray(gen.gen_ic_fun(key=jax.random.PRNGKey(key))(ex.make_grid(D, L, N)))
                                rec.count(transitions=1)
                                rec.close(float(np.max(np.abs(a - b2))), 1e3 * EPS * 8, f"C18/{g}/function_form", "function form of the scaled generator differs from its sampled form", **info)
            else:
                combos = [("tfs", "grf"), ("blobs", "disc", "blobs"), ("grf",), ("disc", "tfs", "grf", "blobs")]
                for names in combos:
                    gens = [inners[nm] for nm in names]
                    for wrap in ("plain", "scaled_members"):
                        members = gens if wrap == "plain" else [ic.ScaledICGenerator(x, 1.5) for x in gens]
                        gen = ic.RandomMultiChannelICGenerator(members)
                        for key in keys:
                            info = dict(D=D, N=N, members=list(names), nesting=wrap, key=key)
                            a = twice(rec, g, gen, N, key, info)
                            if not basic(rec, g, a, len(names), D, N, info):
                                continue
                            ks = jax.random.split(jax.random.PRNGKey(key), len(names))
                            want = np.concatenate([np.asarray(m(N, key=k)) for m, k in zip(members, ks)], axis=0)
                            rec.close(float(np.max(np.abs(a - want))), 1e3 * EPS * 8, f"C18/{g}/members", "channels are not the member generators' draws with split keys", **info)
                            if all(nm in ("blobs", "disc") for nm in names):
                                b2 = np.asarray(gen.gen_ic_fun(key=jax.random.PRNGKey(key))(ex.make_grid(D, 1.0, N)))
                                rec.count(transitions=1)
                                rec.close(float(np.max(np.abs(a - b2))) if a.shape == b2.shape else np.inf, 1e3 * EPS * 8, f"C18/{g}/function_form",
                                          "function form of the multi-channel generator differs from its sampled form", **info)
            rec.sample({"generator": g, "D": D, "N": N, "inner": sorted(inners), "nesting": ["plain", "scaled", "clamped"], "keys": keys})
        elif g == "explicit":
            # deterministic IC classes against explicit formulas
            from exponax.ic._discontinuities import Discontinuity
            from exponax.ic._gaussian_blob import GaussianBlob

            L = 2.5
            G = np.asarray(ex.make_grid(D, L, N))
            boxes = [((0.2 * L,) * D, (0.7 * L,) * D, 1.5), ((0.5 * L,) * D, (0.9 * L,) * D, -0.7)]
            for (zm, so, mo) in FLAGS:
                if not valid(zm, so, mo):
                    continue
                dl = tuple(Discontinuity(lower_limits=lo, upper_limits=hi, value=v) for lo, hi, v in boxes)
                f = ic.Discontinuities(dl, zero_mean=zm, std_one=so, max_one=mo)
                a = np.asarray(f(jnp.asarray(G)))
                rec.count(states=1, transitions=1, traces=1)
                info = dict(D=D, N=N, flags=[zm, so, mo])
                if not basic(rec, "Discontinuities", a, 1, D, N, info):
                    continue
                want = np.zeros((N,) * D)
                for lo, hi, v in boxes:
                    m = np.ones((N,) * D, dtype=bool)
                    for d in range(D):
                        m &= (G[d] > lo[d]) & (G[d] < hi[d])
                    want += np.where(m, v, 0.0)
                if zm:
                    want = want - want.mean()
                if so:
                    want = want / want.std()
                if mo:
                    want = want / np.max(np.abs(want))
                rec.close(float(np.max(np.abs(a[0] - want))), 1e3 * EPS * 4, "C18/Discontinuities/formula", "state is not the sum of box indicators with the requested normalisation", **info)
                rec.outcome_array(a)
            mc = ic.MultiChannelIC((ic.Discontinuities((Discontinuity(lower_limits=(0.1,) * D, upper_limits=(1.0,) * D, value=2.0),), zero_mean=False),
                                    ic.GaussianBlobs((GaussianBlob(jnp.full((D,), 0.5 * L), jnp.eye(D) * 0.05),))))
            a = np.asarray(mc(jnp.asarray(G)))
            rec.count(states=1, transitions=1, traces=1)
            basic(rec, "MultiChannelIC", a, 2, D, N, dict(D=D, N=N))
            sc = ic.ScaledIC(ic.GaussianBlobs((GaussianBlob(jnp.full((D,), 0.5 * L), jnp.eye(D) * 0.05),)), scale=-3.0)
            a2 = np.asarray(sc(jnp.asarray(G)))
            rec.count(states=1, transitions=1, traces=1)
            if basic(rec, "ScaledIC", a2, 1, D, N, dict(D=D, N=N)):
                rec.close(float(np.max(np.abs(a2 + 3.0 * a[1:2]))), 1e3 * EPS * 4, "C18/ScaledIC/scale", "ScaledIC is not scale * ic", D=D, N=N)
            if D == 1:
                for so, mo, off in ((False, False, 0.3), (True, False, 0.0), (False, True, 0.3)):
                    sw = ic.SineWaves1d(L, (1.0, -0.5), (1, 3), (0.2, 1.1), offset=off, std_one=so, max_one=mo)
                    a3 = np.asarray(sw(jnp.asarray(G)))
                    want = 1.0 * np.sin(1 * 2 * np.pi / L * G + 0.2) - 0.5 * np.sin(3 * 2 * np.pi / L * G + 1.1) + off
                    if so:
                        want = want / want.std()
                    if mo:
                        want = want / np.max(np.abs(want))
                    rec.count(states=1, transitions=1, traces=1)
                    rec.close(float(np.max(np.abs(a3 - want))), 1e3 * EPS * 4, "C18/SineWaves1d/formula", "state is not the documented sine series", N=N, std_one=so, max_one=mo)
            rec.sample({"generator": "explicit IC classes", "D": D, "N": N})

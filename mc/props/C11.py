"""
C11 - dissipative and dispersive linear steppers never amplify any state.

Lift L: the stepper is applied to EVERY grid delta, which yields the complete matrix M of the linear map on
the N^D (2 N^D for the wave equation) dimensional state space - white noise and Nyquist content are inside its
domain.  Then, by SVD / Gram matrices:
  * ||M||_2 <= 1                                     (no state whatsoever is amplified)
  * singular values are bounded by e^{Re lambda(k) dt} mode by mode; strictly < 1 off the constants for
    diffusive / hyper-diffusive steppers
  * advection / dispersion: M^T M = I on odd grids and on the Nyquist-free subspace of even grids
  * wave: M^T Q M = Q on the Nyquist-free subspace for the energy form Q = kinetic + c^2 * gradient energy
  * repeat(S, n) applied to all deltas equals M^n  (n in {2, 8, 64})
"""

import itertools
import math

import numpy as np

from mc import ref
from mc.props.C01 import VAR

EPS = 2.3e-16
RULE = ("one state per grid delta per (variant, D, N, L, dt) (the columns of the full operator matrix); transition = one stepper call; "
        "oracle on the assembled matrix; distinct_nontrivial = distinct observed matrices / spectra")
ASSUMPTIONS = [
    "lift L: the stepper is linear, so the matrix assembled from all grid deltas represents it on ALL real states",
    "non-amplifying coefficient choices are selected at run time from the reference symbol (max_k Re lambda(k) <= 0 over the whole grid incl. Nyquist)",
]
LS = [1.0, 2 * math.pi, 0.37, 30.0]
DTS = [1e-3, 1.0, 1e3, 1e6]


def bounds(tier):
    if tier == "quick":
        return {"N": {1: [3, 4, 5, 6, 7, 8, 11, 12, 16], 2: [3, 4, 5, 6], 3: [3, 4]}, "L": LS, "dt": DTS, "repeat_n": [2, 8, 64]}
    return {"N": {1: list(range(3, 33)), 2: list(range(3, 9)), 3: [3, 4, 5]}, "L": LS, "dt": DTS, "repeat_n": [2, 8, 64]}


def units(tier, seed):
    b = bounds(tier)
    us = []
    for name, v in VAR.items():
        for D in v["dims"]:
            us.append({"name": f"{name}/D{D}", "kind": "lin", "variant": name, "D": D, "Ns": b["N"][D], "repeat_n": b["repeat_n"],
                       "cost": sum(n ** (2 * D) for n in b["N"][D])})
    for D in (1, 2, 3):
        us.append({"name": f"Wave/D{D}", "kind": "wave", "D": D, "Ns": b["N"][D], "repeat_n": b["repeat_n"], "cost": 4 * sum(n ** (2 * D) for n in b["N"][D])})
    return us


def full_symbol(v, D, N, L):
    """symbol on every wavevector of the grid (one per residue class)"""
    ks = ref.all_wavevectors(D, N)
    lam = []
    for k in ks:
        if ref.is_nyquist(k, N):
            # the sign of a Nyquist wavenumber is a convention (+N/2 == -N/2 on the grid): mixed and odd derivatives are ambiguous there,
            # so the bound uses the least-damped sign choice
            alts = itertools.product(*[((kd, -kd) if abs(kd) == N // 2 else (kd,)) for kd in k])
            vals = [v["sym"](ka, D, N, L)[0] for ka in alts]
            lam.append(max(vals, key=lambda z: z.real))
        else:
            lam.append(v["sym"](k, D, N, L)[0])
    return ks, np.array(lam, dtype=complex)


def nyquist_free_Q(D, N):
    """orthonormal basis (columns) of the Nyquist-free real subspace of R^{N^D}"""
    basis = ref.real_basis(D, N, nyquist=False)
    F = ref.basis_fields(D, N, 1.0, basis).reshape(len(basis), -1)
    F = F / np.linalg.norm(F, axis=1, keepdims=True)
    return basis, F.T


def unit_lin(u, rec):
    import jax
    import jax.numpy as jnp

    import exponax as ex

    name, D = u["variant"], u["D"]
    v = VAR[name]
    rec.dim("variant", name)
    rec.dim("D", D)
    for N in u["Ns"]:
        n = N**D
        Dl = ref.deltas(D, N)
        basisQ, Q = nyquist_free_Q(D, N)
        combos = [(1.0, 1.0)] if v["fixed"] else list(itertools.product(LS, DTS))
        for L, dt in combos:
            ks, lam = full_symbol(v, D, N, L if not v["fixed"] else 1.0)
            if np.max(lam.real) > 0:
                rec.dim("skipped_amplifying", f"{name}|N={N}|L={L}")
                continue
            stepper = v["build"](ex, jnp, D, N, L, dt)
            cols = np.asarray(jax.vmap(stepper)(jnp.asarray(Dl[:, None])))[:, 0].reshape(n, n)
            M = cols.T  # column j = S(delta_j)
            rec.count(states=n, transitions=n, traces=n)
            rec.dim("N", N)
            rec.dim("dt", dt)
            tol = 1e3 * EPS * n
            sv = np.linalg.svd(M, compute_uv=False)
            rec.close(sv[0] - 1.0, tol, f"C11/{name}/norm", "the stepper amplifies some state: ||M||_2 > 1", D=D, N=N, L=L, dt=dt, sigma_max=float(sv[0]))
            # mode-by-mode bound: sorted singular values <= sorted e^{Re lambda dt} (Nyquist modes of odd-order symbols may only lose)
            growth = np.sort(np.exp(lam.real * dt))[::-1]
            rec.close(np.max(sv - growth), tol, f"C11/{name}/spectrum", "singular values exceed e^{Re lambda(k) dt} of the documented symbol",
                      D=D, N=N, L=L, dt=dt)
            nonconst = np.array([any(k) for k in ks])
            if np.all(lam.real[nonconst] < 0):
                # strictly dissipative: every non-constant direction shrinks
                P = np.eye(n) - np.ones((n, n)) / n
                s2 = np.linalg.svd(M @ P, compute_uv=False)[0]
                bound = float(np.max(np.exp(lam.real[nonconst] * dt)))
                rec.close(s2 - bound, tol, f"C11/{name}/strict", "a non-constant mode is not damped as fast as the documented symbol demands",
                          D=D, N=N, L=L, dt=dt, sigma=float(s2), bound=bound)
                rec.check(s2 < 1.0, f"C11/{name}/strict_lt_1", "a non-constant direction is not strictly damped", D=D, N=N, L=L, dt=dt, sigma=float(s2))
            if np.all(lam.real == 0):
                # non-dissipative: isometry on odd grids, and on the Nyquist-free subspace of even grids
                if N % 2 == 1:
                    rec.close(np.max(np.abs(M.T @ M - np.eye(n))), tol, f"C11/{name}/isometry_odd", "norm is not preserved on an odd grid", D=D, N=N, L=L, dt=dt)
                MQ = M @ Q
                rec.close(np.max(np.abs(MQ.T @ MQ - np.eye(Q.shape[1]))), tol, f"C11/{name}/isometry_nyquist_free",
                          "norm is not preserved on Nyquist-free states", D=D, N=N, L=L, dt=dt)
            rec.outcome_array(sv[: min(8, n)])
            # repeat(S, n) on all deltas equals M^n
            if dt == 1.0 and L == LS[0] or v["fixed"]:
                for r in u["repeat_n"]:
                    got = np.asarray(jax.vmap(ex.repeat(stepper, r))(jnp.asarray(Dl[:, None])))[:, 0].reshape(n, n).T
                    want = np.linalg.matrix_power(M, r)
                    rec.count(states=n, transitions=n * r, traces=n)
                    rec.close(np.max(np.abs(got - want)), 1e3 * EPS * n * r, f"C11/{name}/repeat", "repeat(S, n) on the basis differs from M^n", D=D, N=N, n=r)
                    rec.close(np.linalg.svd(got, compute_uv=False)[0] - 1.0, tol * r, f"C11/{name}/repeat_norm", "a long rollout amplifies some state", D=D, N=N, n=r)
        if N == u["Ns"][0]:
            rec.sample({"variant": name, "D": D, "N": N, "matrix": [n, n], "L": LS, "dt": DTS})


def unit_wave(u, rec):
    import jax
    import jax.numpy as jnp

    import exponax as ex

    D = u["D"]
    c = 1.3
    for N in u["Ns"]:
        n = N**D
        Dl = ref.deltas(D, N)
        Z = np.zeros_like(Dl)
        inp = np.concatenate([np.stack([Dl, Z], axis=1), np.stack([Z, Dl], axis=1)])  # (2n, 2, N..)
        basisQ, Q = nyquist_free_Q(D, N)
        q = Q.shape[1]
        Q2 = np.zeros((2 * n, 2 * q))
        Q2[:n, :q] = Q
        Q2[n:, q:] = Q
        for L, dt in itertools.product(LS, DTS):
            kap2 = np.array([np.sum(ref.kappa(k, L) ** 2) for k, _ in basisQ])
            wE = np.concatenate([c * c * kap2, np.ones(q)])  # energy weights: c^2 |kappa|^2 h^2 + v^2
            stepper = ex.stepper.Wave(D, L, N, dt, speed_of_sound=c)
            M = np.asarray(jax.vmap(stepper)(jnp.asarray(inp))).reshape(2 * n, 2 * n).T
            rec.count(states=2 * n, transitions=2 * n, traces=2 * n)
            Mt = Q2.T @ M @ Q2  # restriction to the Nyquist-free subspace (invariant)
            leak = M @ Q2 - Q2 @ Mt
            scale = max(1.0, float(np.max(np.abs(M))))
            rec.close(np.max(np.abs(leak)), 1e3 * EPS * n * scale, "C11/Wave/invariant_subspace", "Nyquist-free states do not stay Nyquist-free", D=D, N=N, L=L, dt=dt)
            G = Mt.T @ (wE[:, None] * Mt) - np.diag(wE)
            rec.close(np.max(np.abs(G)), 1e3 * EPS * n * max(1.0, float(np.max(wE))) * scale**2 * (1 + c * math.sqrt(float(np.max(kap2))) * abs(dt)),
                      "C11/Wave/energy", "wave energy (kinetic + c^2 gradient) is not conserved on Nyquist-free states", D=D, N=N, L=L, dt=dt)
            rec.outcome_array(np.linalg.svd(Mt, compute_uv=False)[:8])
            if dt == 1.0 and L == LS[0]:
                for r in u["repeat_n"]:
                    got = np.asarray(jax.vmap(ex.repeat(stepper, r))(jnp.asarray(inp))).reshape(2 * n, 2 * n).T
                    want = np.linalg.matrix_power(M, r)
                    rec.count(states=2 * n, transitions=2 * n * r, traces=2 * n)
                    rec.close(np.max(np.abs(got - want)), 1e3 * EPS * n * r * max(1.0, float(np.max(np.abs(want)))), "C11/Wave/repeat",
                              "repeat(Wave, n) on the basis differs from M^n", D=D, N=N, n=r)
        rec.sample({"variant": "Wave", "D": D, "N": N, "matrix": [2 * n, 2 * n]})


def run_unit(u, rec):
    {"lin": unit_lin, "wave": unit_wave}[u["kind"]](u, rec)

"""
C09 - conserved quantities and equilibria survive the discretisation exactly.

(a) mean: BFS chains (1..5 steps) of every listed stepper x order x D x N odd/even from ternary states (ALL 3^n sign
    patterns on the smallest 1D grids), every real Fourier basis function incl. Nyquist / out-of-band modes, pairs and
    superpositions; invariant |mean(S^n u) - mean(u)| <= tol per channel in every visited state.  Term level (lift P):
    the k = 0 coefficient of each conservation-form nonlinear term is a polynomial form that must vanish on the
    simplex lattice of the basis => vanishes for all states.
(b) no work: <u, N(u)>, <psi, N(omega)>, <omega, N(omega)> are cubic forms; evaluated in physical space on the
    complete lattice Lambda_3 of the in-band basis => zero for all band-limited states.
(c) equilibria: every spatially constant root of the reaction / convection right-hand sides x orders x dt x chains;
    invariant S(u*) = u*.
"""

import itertools
import math

import numpy as np

from mc import ref
from mc.core import bfs

EPS = 2.3e-16
RULE = ("(a) one state per (stepper, order, D, N, initial state, step count); (b) one state per lattice point of Lambda_3(in-band basis); "
        "(c) one state per (stepper, root, order, dt, step count); transition = one stepper / term call; distinct_nontrivial = distinct observed outputs")
ASSUMPTIONS = [
    "mean conservation only for the forms the property lists: conservative, single-channel or 1D convection; drag = 0 for Navier-Stokes; "
    "divergence-free states for the 3D velocity form (the mean of u x omega vanishes only then)",
    "no-work identities: 1D / single-channel Burgers-type forms, 3D rotational form on divergence-free band-limited fields, 2D vorticity form",
    "fixed points: tolerance carries e^{growth*dt*n} because unstable equilibria amplify rounding",
]


def bounds(tier):
    if tier == "quick":
        return {"ternary_N": [6, 7], "N": {1: [6, 9, 12], 2: [6, 7], 3: [6]}, "orders": [1, 2, 3, 4], "chain": 5, "nowork_N": {1: list(range(6, 14)), 2: [6, 7, 9, 10], 3: [6]},
                "nowork_deg3_3d": False}
    return {"ternary_N": [6, 7, 8], "N": {1: [6, 7, 9, 12, 15], 2: [6, 7, 8, 9], 3: [6, 7]}, "orders": [1, 2, 3, 4], "chain": 5,
            "nowork_N": {1: list(range(6, 22)), 2: [6, 7, 8, 9, 10, 11, 12], 3: [6, 7]}, "nowork_deg3_3d": True}


# steppers whose mean must be conserved: name -> (dims, channels(D), builder, needs_solenoidal)
def MEAN():
    M = {}

    def add(name, dims, ch, build, sol=False, linear=False):
        M[name] = dict(dims=dims, ch=ch, build=build, sol=sol, linear=linear)

    one = lambda D: 1
    add("Advection", (1, 2, 3), one, lambda ex, D, N, L, dt, o: ex.stepper.Advection(D, L, N, dt, velocity=0.7), linear=True)
    add("Diffusion", (1, 2, 3), one, lambda ex, D, N, L, dt, o: ex.stepper.Diffusion(D, L, N, dt, diffusivity=0.05), linear=True)
    add("Dispersion", (1, 2, 3), one, lambda ex, D, N, L, dt, o: ex.stepper.Dispersion(D, L, N, dt, dispersivity=0.03), linear=True)
    add("HyperDiffusion", (1, 2, 3), one, lambda ex, D, N, L, dt, o: ex.stepper.HyperDiffusion(D, L, N, dt, hyper_diffusivity=2e-3), linear=True)
    for nm, cls, kw in (("Burgers", "Burgers", dict(diffusivity=0.03, convection_scale=0.9)),
                        ("KortewegDeVries", "KortewegDeVries", dict(convection_scale=-1.5, dispersivity=0.02, hyper_diffusivity=1e-4, diffusivity=0.01)),
                        ("KuramotoSivashinskyConservative", "KuramotoSivashinskyConservative", dict(convection_scale=0.9, second_order_scale=0.05, fourth_order_scale=2e-4))):
        for single, cons in ((False, True), (True, True), (True, False)):
            add(f"{nm}/single={single},cons={cons}", (1, 2, 3), (lambda D, s=single: 1 if s else D),
                lambda ex, D, N, L, dt, o, cls=cls, kw=kw, s=single, c=cons: getattr(ex.stepper, cls)(D, L, N, dt, single_channel=s, conservative=c, order=o, **kw))
        add(f"{nm}/1D_nonconservative", (1,), one,
            lambda ex, D, N, L, dt, o, cls=cls, kw=kw: getattr(ex.stepper, cls)(D, L, N, dt, single_channel=False, conservative=False, order=o, **kw))
    add("KuramotoSivashinsky", (1, 2, 3), one, lambda ex, D, N, L, dt, o: ex.stepper.KuramotoSivashinsky(D, L, N, dt, gradient_norm_scale=0.7, second_order_scale=0.05,
                                                                                                       fourth_order_scale=2e-4, order=o))
    add("CahnHilliard", (1, 2, 3), one, lambda ex, D, N, L, dt, o: ex.stepper.reaction.CahnHilliard(D, L, N, dt, diffusivity=0.02, gamma=2e-3, order=o))
    add("NavierStokesVorticity", (2,), one, lambda ex, D, N, L, dt, o: ex.stepper.NavierStokesVorticity(D, L, N, dt, diffusivity=0.02, drag=0.0, order=o))
    add("NavierStokesVelocity", (3,), lambda D: 3, lambda ex, D, N, L, dt, o: ex.stepper.NavierStokesVelocity(D, L, N, dt, diffusivity=0.02, drag=0.0, order=o), sol=True)
    return M


def units(tier, seed):
    b = bounds(tier)
    us = []
    for name, m in MEAN().items():
        for D in m["dims"]:
            us.append({"name": f"mean/{name}/D{D}", "kind": "mean", "stepper": name, "D": D, "b": b, "cost": 40 * D * D})
    for term in NOWORK:
        dims = NOWORK[term][0]
        for D in dims:
            for N in b["nowork_N"][D]:
                # (extend the lattice one mode beyond the band?, degree of the lattice).  A cubic form is decided by Lambda_3; in 3D the extended
                # rotational lattice (250 solenoidal basis vectors -> 2.6e6 points) is out of reach: thorough uses Lambda_3 inside the band plus
                # Lambda_2 on the extended band (partial, stated), quick uses Lambda_2 / Lambda_3 inside the band
                if D < 3:
                    variants = [(True, 3)]
                elif NOWORK[term][2] == "rot":
                    variants = [(False, 3), (True, 2)] if b["nowork_deg3_3d"] else [(False, 2)]
                else:
                    variants = [(True, 3)] if b["nowork_deg3_3d"] else [(False, 3)]
                for ext, deg in variants:
                    us.append({"name": f"nowork/{term}/D{D}/N{N}/ext{int(ext)}deg{deg}", "kind": "nowork", "term": term, "D": D, "N": N, "ext": ext, "deg": deg,
                               "cost": N ** (2 * D) * (10 if ext else 1)})
    for eq in EQUIL:
        us.append({"name": f"equil/{eq}", "kind": "equil", "eq": eq, "b": b, "cost": 30})
    return us


# ----------------------------------------------------------------------------------------- (a) mean


def project_solenoidal(f):
    D = f.shape[0]
    N = f.shape[-1]
    axes = tuple(range(-D, 0))
    fh = np.fft.fftn(f, axes=axes)
    kk = np.stack(np.meshgrid(*[np.fft.fftfreq(N, 1.0 / N)] * D, indexing="ij"))
    if N % 2 == 0:  # drop Nyquist content: the projector is ambiguous there
        mask = np.ones((N,) * D, dtype=bool)
        for d in range(D):
            mask &= np.abs(kk[d]) != N // 2
        fh = fh * mask
    k2 = np.sum(kk**2, axis=0)
    kd = np.sum(kk * fh, axis=0)
    fh = fh - kk * np.where(k2 > 0, kd / np.where(k2 > 0, k2, 1.0), 0.0)
    return np.real(np.fft.ifftn(fh, axes=axes))


def initial_states(D, N, C, seed, ternary, sol):
    """arbitrary real states (content up to Nyquist): ternary lattice (optional), basis functions, pairs, superpositions"""
    out = []
    basis = ref.real_basis(D, N, nyquist=True)
    B = ref.basis_fields(D, N, 1.0, basis)
    if ternary:
        for pat in itertools.product((-1.0, 0.0, 1.0), repeat=N):
            out.append(np.array(pat).reshape((1, N)) + 0.25)
    nb = len(basis)
    sel = range(nb) if nb <= 40 else list(range(0, nb, max(1, nb // 40)))
    for i in sel:
        st = np.zeros((C,) + (N,) * D)
        st[i % C] = B[i] + 0.3
        if C > 1:
            st[(i + 1) % C] = 0.5 * B[(i * 7 + 3) % nb] - 0.2
        out.append(st)
    w = ref.weights(nb * C, seed)
    for s in range(3):
        st = np.zeros((C,) + (N,) * D)
        for i in range(nb * C):
            st[i % C] += w[(i * (s + 1)) % len(w)] * B[i // C] / nb**0.5
        st += 0.4 * (s + 1)
        out.append(st)
    if sol:
        # 3D velocity form: the mean of u x omega vanishes for solenoidal fields; the term pre-truncates its input to the retained band, so only the
        # IN-BAND part must be solenoidal - content outside the band (Nyquist planes included) stays arbitrary and must be ignored
        K = ref.band_limit(D, N, 2 / 3)
        kk = np.stack(np.meshgrid(*[np.fft.fftfreq(N, 1.0 / N)] * D, indexing="ij"))
        inband = np.all(np.abs(kk) <= K, axis=0)
        axes = tuple(range(-D, 0))
        new_out = []
        for s in out:
            sh = np.fft.fftn(s, axes=axes)
            s_in = np.real(np.fft.ifftn(sh * inband, axes=axes))
            s_rest = s - s_in
            new_out.append(project_solenoidal(s_in) + s_rest + 0.3)
        out = new_out
    return out


def unit_mean(u, rec):
    import jax
    import jax.numpy as jnp

    import exponax as ex

    m = MEAN()[u["stepper"]]
    D, b = u["D"], u["b"]
    C = m["ch"](D)
    rec.dim("stepper", u["stepper"])
    rec.dim("D", D)
    Ns = list(b["N"][D])
    for N in Ns:
        L, dt = 2.5, 0.05
        ternary = D == 1 and C == 1 and N in b["ternary_N"]
        states = np.stack(initial_states(D, N, C, u["seed"], ternary, m["sol"]))
        m0 = states.reshape(states.shape[0], C, -1).mean(axis=2)
        amp = np.max(np.abs(states).reshape(states.shape[0], -1), axis=1)
        for order in ((0,) if m["linear"] else b["orders"]):
            st = m["build"](ex, D, N, L, dt, order)
            step_all = jax.jit(jax.vmap(st))
            rec.dim("order", order)
            rec.dim("N", N)

            def step(op, key, iv, mv):
                return key + 1, step_all(iv), key + 1

            def inv(key, iv, mv, trace):
                f = np.asarray(iv)
                fin = np.all(np.isfinite(f.reshape(f.shape[0], -1)), axis=1)
                mm = f.reshape(f.shape[0], C, -1).mean(axis=2)
                drift = np.max(np.abs(mm - m0), axis=1)
                grow = np.maximum(amp, np.max(np.abs(np.where(np.isfinite(f), f, 0.0)).reshape(f.shape[0], -1), axis=1))
                r = np.where(fin, drift / (2e3 * EPS * (1 + key) * np.maximum(1.0, grow) ** 2), 0.0)
                i = int(np.argmax(r))
                rec.count(states=f.shape[0] - 1, transitions=(f.shape[0] - 1) if key else 0, traces=(f.shape[0] - 1) if key else 0)
                rec.close(r[i], 1.0, f"C09/mean/{u['stepper']}", "the spatial mean of a channel changes", D=D, N=N, order=order, steps=key, state=i,
                          drift=float(drift[i]), mean0=m0[i].tolist())
                rec.outcome("mean", u["stepper"], D, N, order, key, float(np.sum(np.where(np.isfinite(f), f, 0.0) ** 2)))

            bfs(rec, [(0, jnp.asarray(states), 0)], ["step"], step, inv, depth=b["chain"], label=f"C09/mean/{u['stepper']}")
    rec.sample({"stepper": u["stepper"], "D": D, "N": Ns, "orders": b["orders"], "chain": b["chain"], "ternary_on": [n for n in Ns if D == 1 and C == 1 and n in b["ternary_N"]]})


# ----------------------------------------------------------------------------------------- (b) no work / zero mode

NOWORK = {
    # term -> (dims, channels, kind)
    "conv/single_cons": ((1, 2, 3), 1, "energy"),
    "conv/single": ((1, 2, 3), 1, "energy"),
    "conv/multi_1d": ((1,), 1, "energy"),
    "conv/multi_cons_1d": ((1,), 1, "energy"),
    "vort2d": ((2,), 1, "vort"),
    "proj3d": ((3,), 3, "rot"),
    "gradnorm_zero_mode": ((1, 2, 3), 1, "zeromode"),
    "cahnhilliard_zero_mode": ((1, 2), 1, "zeromode"),
    "conv/multi_cons_zero_mode": ((2, 3), None, "zeromode"),
}


def unit_nowork(u, rec):
    import jax
    import jax.numpy as jnp

    import exponax as ex

    term, D, N = u["term"], u["D"], u["N"]
    dims, C, kind = NOWORK[term]
    C = C or D
    L = 2.5
    frac = 0.5 if "cahn" in term else 2 / 3
    K = ref.band_limit(D, N, frac)
    rec.dim("term", term)
    rec.dim("D", D)
    rec.dim("N", N)
    DO = ex.spectral.build_derivative_operator(D, L, N)
    nf = ex.nonlin_fun
    if term.startswith("conv/"):
        fun = nf.ConvectionNonlinearFun(D, N, derivative_operator=DO, dealiasing_fraction=2 / 3, scale=0.9,
                                        single_channel="single" in term, conservative="cons" in term)
    elif term == "vort2d":
        fun = nf.VorticityConvection2d(D, N, convection_scale=0.9, derivative_operator=DO, dealiasing_fraction=2 / 3)
    elif term == "proj3d":
        fun = nf.ProjectedConvection3d(D, N, derivative_operator=DO, dealiasing_fraction=2 / 3)
    elif term.startswith("gradnorm"):
        fun = nf.GradientNormNonlinearFun(D, N, derivative_operator=DO, dealiasing_fraction=2 / 3, zero_mode_fix=True, scale=0.7)
    else:
        from exponax.stepper.reaction._cahn_hilliard import CahnHilliardNonlinearFun

        fun = CahnHilliardNonlinearFun(D, N, derivative_operator=DO, scale=0.03, dealiasing_fraction=0.5)
    call = jax.jit(jax.vmap(fun))
    X = ref.grid(D, N, L)
    full_basis = ref.real_basis(D, N, nyquist=True)
    inb = [b for b in full_basis if all(abs(v) <= K for v in b[0]) and not ref.is_nyquist(b[0], N)]
    axes = tuple(range(-D, 0))
    if kind == "zeromode":
        # k = 0 coefficient of the term on Lambda_d of the FULL basis (thinned for big grids: every in-band pair + every out-of-band vector added to a fixed state)
        Bf = ref.basis_fields(D, N, L, full_basis, X)
        inb_idx = [i for i, bb in enumerate(full_basis) if bb in inb]
        deg = 3 if "cahn" in term else 2
        states = []
        vecs = [(i, c) for i in inb_idx for c in range(C)]
        for j in range(deg + 1):
            for comb in itertools.combinations_with_replacement(range(len(vecs)), j):
                st = np.zeros((C,) + (N,) * D)
                for t in comb:
                    st[vecs[t][1]] += Bf[vecs[t][0]]
                states.append(st)
                if len(states) > 30000:
                    break
        w = ref.weights(len(vecs) + 1, u["seed"])
        v = np.zeros((C,) + (N,) * D)
        for t, (i, c) in enumerate(vecs):
            v[c] += 0.5 * w[t] * Bf[i]
        for i in range(len(full_basis)):
            if i in inb_idx:
                continue
            for c in range(C):
                s = v.copy()
                s[c] += 0.8 * Bf[i]
                states.append(s)
        states = np.stack(states)
        out = np.asarray(call(jnp.asarray(np.fft.rfftn(states, axes=axes))))
        z = np.abs(out[(slice(None), slice(None)) + (0,) * D]) / N**D
        rec.count(states=len(states), transitions=len(states), traces=len(states))
        i = int(np.argmax(z.max(axis=1)))
        rec.close(float(z[i].max()), 1e4 * EPS * (1 + (2 * np.pi * max(K, 1) / L) ** 2) * 9, f"C09/zero_mode/{term}",
                  "the mean (k=0) coefficient of a conservation-form nonlinear term does not vanish", D=D, N=N, state=i)
        rec.outcome_array(out[len(out) // 2].ravel()[::7])
        rec.sample({"term": term, "D": D, "N": N, "K": K, "lattice_points": int(len(states))})
        return
    # energy-type cubic forms on Lambda_3 of the basis up to ONE MODE BEYOND the documented band: the term pre-truncates its input and its
    # output lies in the band, so <u, N(u)> = <trunc u, N(trunc u)> must vanish for these states as well (this catches a band that is too wide)
    Kx = min(K + 1, (N - 1) // 2) if u["ext"] else K
    inb = [b for b in full_basis if all(abs(v) <= Kx for v in b[0]) and not ref.is_nyquist(b[0], N)]
    Bin = ref.basis_fields(D, N, L, inb, X)
    if kind == "rot":
        # divergence-free in-band vector basis (own construction): polarisations orthogonal to k
        vecs = []
        for i, (k, cs) in enumerate(inb):
            kv = np.array(k, dtype=float)
            if not kv.any():
                pols = list(np.eye(3))
            else:
                pols = []
                for e in np.eye(3):
                    vv = e - kv * (kv @ e) / (kv @ kv)
                    for p in pols:
                        vv = vv - p * (p @ vv)
                    if np.linalg.norm(vv) > 1e-8:
                        pols.append(vv / np.linalg.norm(vv))
                pols = pols[:2]
            for p in pols:
                vecs.append(np.stack([p[c] * Bin[i] for c in range(3)]))
        vecs = np.stack(vecs)
        deg = u["deg"]
    else:
        vecs = Bin[:, None]
        deg = u["deg"]
    n = len(vecs)
    combs = []
    for j in range(1, deg + 1):
        combs.extend(itertools.combinations_with_replacement(range(n), j))
    chunk = 4096
    rec.dim("lattice_points", len(combs))
    w = ref.weights(n, u["seed"])
    extra = np.tensordot(w, vecs, axes=1)[None]
    for a0 in range(0, len(combs) + 1, chunk):
        cc = combs[a0:a0 + chunk]
        states = np.stack([sum(vecs[i] for i in comb) for comb in cc] + ([extra[0]] if a0 + chunk > len(combs) else []))
        nreal = len(states)
        if nreal < chunk and len(combs) > chunk:
            states = np.concatenate([states, np.zeros((chunk - nreal,) + states.shape[1:])])
        uh = np.fft.rfftn(states, axes=axes)
        Nu = np.fft.irfftn(np.asarray(call(jnp.asarray(uh))), s=(N,) * D, axes=axes)[:nreal]
        st = states[:nreal]
        amp = np.sum(np.abs(st).reshape(nreal, -1).max(axis=1)[:, None], axis=1)
        kap = 2 * np.pi * max(K, 1) / L
        rec.count(states=nreal, transitions=nreal, traces=nreal)
        if kind in ("energy", "rot"):
            work = np.mean((st * Nu).reshape(nreal, -1), axis=1) * C
            r = np.abs(work) / (1e4 * EPS * np.maximum(amp, 1.0) ** 3 * kap * 9)
            i = int(np.argmax(r))
            rec.close(r[i], 1.0, f"C09/no_work/{term}", "the convective term does work on a band-limited state: <u, N(u)> != 0", D=D, N=N, K=K, state=int(a0 + i), work=float(work[i]))
        else:
            # vorticity form: enstrophy <omega, N> and energy <psi, N>
            ens = np.mean((st * Nu).reshape(nreal, -1), axis=1)
            oh = np.fft.fftn(st[:, 0], axes=axes)
            kk = np.stack(np.meshgrid(*[np.fft.fftfreq(N, 1.0 / N) * (2 * np.pi / L)] * 2, indexing="ij"))
            k2 = np.sum(kk**2, axis=0)
            psi = np.real(np.fft.ifftn(np.where(k2 > 0, -oh / np.where(k2 > 0, k2, 1.0), 0.0), axes=axes))
            ene = np.mean((psi * Nu[:, 0]).reshape(nreal, -1), axis=1)
            r1 = np.abs(ens) / (1e4 * EPS * np.maximum(amp, 1.0) ** 3 * 9 / kap * kap)
            r2 = np.abs(ene) / (1e4 * EPS * np.maximum(amp, 1.0) ** 3 * 9)
            i = int(np.argmax(r1))
            rec.close(r1[i], 1.0, "C09/no_work/vort2d/enstrophy", "<omega, N(omega)> != 0 on a band-limited state", N=N, K=K, state=int(a0 + i), value=float(ens[i]))
            i = int(np.argmax(r2))
            rec.close(r2[i], 1.0, "C09/no_work/vort2d/energy", "<psi, N(omega)> != 0 on a band-limited state", N=N, K=K, state=int(a0 + i), value=float(ene[i]))
        rec.outcome_array(Nu[nreal // 2].ravel()[::5])
    rec.sample({"term": term, "D": D, "N": N, "K": K, "basis": n, "degree": deg, "lattice_points": len(combs)})


# ----------------------------------------------------------------------------------------- (c) equilibria

def _roots_allen(c1, c3):
    return [0.0] + ([math.sqrt(-c1 / c3), -math.sqrt(-c1 / c3)] if -c1 / c3 > 0 else [])


EQUIL = ["Burgers", "KortewegDeVries", "KuramotoSivashinsky", "KuramotoSivashinskyConservative", "CahnHilliard", "NavierStokesVorticity", "NavierStokesVelocity",
         "FisherKPP", "AllenCahn", "GrayScott", "SwiftHohenberg", "GeneralPolynomialStepper"]


def equil_cases(ex, name, D, N, L, dt, o):
    """-> (stepper, list of constant states (C,), linear growth rate bound)"""
    R = ex.stepper.reaction
    consts = [-1.3, 0.0, 0.4, 2.0]
    if name == "Burgers":
        return ex.stepper.Burgers(D, L, N, dt, diffusivity=0.03, order=o), [[c] * D for c in consts], 0.0
    if name == "KortewegDeVries":
        return ex.stepper.KortewegDeVries(D, L, N, dt, order=o, single_channel=True), [[c] for c in consts], 0.0
    if name == "KuramotoSivashinsky":
        return ex.stepper.KuramotoSivashinsky(D, L, N, dt, second_order_scale=0.05, fourth_order_scale=2e-4, order=o), [[c] for c in consts], 0.05 * (2 * np.pi * (N // 2) / L) ** 2
    if name == "KuramotoSivashinskyConservative":
        return ex.stepper.KuramotoSivashinskyConservative(D, L, N, dt, second_order_scale=0.05, fourth_order_scale=2e-4, single_channel=True, order=o), [[c] for c in consts], 0.05 * (2 * np.pi * (N // 2) / L) ** 2
    if name == "CahnHilliard":
        return R.CahnHilliard(D, L, N, dt, diffusivity=0.02, gamma=2e-3, order=o), [[c] for c in consts], 0.02 * (2 * np.pi * (N // 2) / L) ** 2 * 12
    if name == "NavierStokesVorticity":
        return ex.stepper.NavierStokesVorticity(2, L, N, dt, diffusivity=0.02, drag=0.0, order=o), [[c] for c in consts], 0.0
    if name == "NavierStokesVelocity":
        return ex.stepper.NavierStokesVelocity(3, L, N, dt, diffusivity=0.02, drag=0.0, order=o), [[c, -0.5 * c, 0.3] for c in consts], 0.0
    if name == "FisherKPP":
        return R.FisherKPP(D, L, N, dt, diffusivity=0.02, reactivity=0.8, order=o), [[0.0], [1.0]], 0.8
    if name == "AllenCahn":
        return R.AllenCahn(D, L, N, dt, diffusivity=0.01, first_order_coefficient=0.9, third_order_coefficient=-1.1, order=o), [[r] for r in _roots_allen(0.9, -1.1)], 2 * 0.9
    if name == "GrayScott":
        f, k = 0.03, 0.055
        roots = [[1.0, 0.0]]
        disc = f * f - 4 * f * (f + k) ** 2
        if disc >= 0:
            for sgn in (1, -1):
                v = (f + sgn * math.sqrt(disc)) / (2 * (f + k))
                roots.append([(f + k) / v, v])
        return R.GrayScott(D, L, N, dt, diffusivity_1=2e-3, diffusivity_2=1e-3, feed_rate=f, kill_rate=k, order=o), roots, 1.0
    if name == "SwiftHohenberg":
        r, kc = 0.9, 0.8  # not the defaults: k and k^2 differ
        q = r - kc * kc  # (r-k^2) u + u^2 - u^3 = 0 -> u = 0 or u^2 - u - q = 0
        roots = [[0.0]]
        if 1 + 4 * q >= 0:
            roots += [[(1 + math.sqrt(1 + 4 * q)) / 2], [(1 - math.sqrt(1 + 4 * q)) / 2]]
        return R.SwiftHohenberg(D, L, N, dt, reactivity=r, critical_number=kc, order=o), roots, 3.0
    if name == "GeneralPolynomialStepper":
        # u_t = a0*D u + p2 u^2  -> roots 0 and -a0 D / p2
        a0, p2 = 0.4, -0.5
        return ex.stepper.generic.GeneralPolynomialStepper(D, L, N, dt, linear_coefficients=(a0, 0.0, 0.02), polynomial_coefficients=(0.0, 0.0, p2), order=o), [[0.0], [-a0 * D / p2]], a0 * D
    raise ValueError(name)


def unit_equil(u, rec):
    import jax.numpy as jnp

    import exponax as ex

    name, b = u["eq"], u["b"]
    dims = {"NavierStokesVorticity": (2,), "NavierStokesVelocity": (3,)}.get(name, (1, 2))
    rec.dim("stepper", name)
    for D in dims:
        for N in ({1: (8, 9), 2: (8, 9), 3: (8,)}[D]):
            for dt in (0.01, 0.5, 2.0):
                for o in b["orders"]:
                    L = 2.5
                    st, roots, growth = equil_cases(ex, name, D, N, L, dt, o)
                    if growth * dt * 4 > 5:
                        continue
                    for root in roots:
                        C = len(root)
                        s0 = np.stack([np.full((N,) * D, float(r)) for r in root])

                        def step(op, key, iv, mv):
                            return key + 1, st(iv), key + 1

                        def inv(key, iv, mv, trace):
                            f = np.asarray(iv)
                            rec.close(np.max(np.abs(f - s0)) if np.all(np.isfinite(f)) else np.inf,
                                      1e3 * EPS * (1 + max(abs(r) for r in root)) ** 3 * math.exp(growth * dt * key) * (1 + key),
                                      f"C09/equilibrium/{name}", "a spatially constant equilibrium is not a fixed point of the stepper",
                                      D=D, N=N, dt=dt, order=o, root=root, steps=key)
                            rec.outcome("eq", name, D, N, dt, o, tuple(root), key, float(np.sum(f)))

                        bfs(rec, [(0, jnp.asarray(s0), 0)], ["step"], step, inv, depth=4, label=f"C09/equilibrium/{name}")
    rec.sample({"stepper": name, "dims": dims, "dt": [0.01, 0.5, 2.0], "orders": b["orders"], "chain": 4})


def run_unit(u, rec):
    {"mean": unit_mean, "nowork": unit_nowork, "equil": unit_equil}[u["kind"]](u, rec)

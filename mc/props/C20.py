"""
C20 - malformed states and unsupported configurations are rejected, not accepted.

Lift D: the option space is finite.  Every exported stepper class (enumerated from the package exports at run
time) x every supported D x ALL single-edit mutations of the correct state shape must raise ValueError; the
correct shape must be accepted and give the same shape back.  Same for RepeatedStepper and Poisson.  Dimension
guards, parity guards and the documented invalid option combinations of generators / metrics must raise.
"""

import inspect
import itertools

import numpy as np

from mc import catalog

RULE = ("one state per (stepper class / wrapper / solver, D, shape mutation) and per (guard, argument combination); transition = one call expected to "
        "raise or to succeed; distinct_nontrivial = distinct (class, D, mutation, outcome) observations")
ASSUMPTIONS = ["the rejection must be a ValueError (as documented); any other exception type or silent acceptance is a violation"]


def bounds(tier):
    return {"D": [1, 2, 3], "N": 8 if tier == "quick" else [8, 9], "shape_mutations": "channel+-1, drop axis, leading axis, trailing axis, each axis length +-1, fewer/more spatial axes"}


def units(tier, seed):
    us = []
    for e in catalog.entries():
        for N in ((8,) if tier == "quick" else (8, 9)):
            us.append({"name": f"stepper/{e.name}/N{N}", "kind": "stepper", "entry": e.name, "N": N, "cost": 10})
    for i in range(6):
        us.append({"name": f"exports/{i}", "kind": "exports", "part": i, "parts": 6, "cost": 30})
    us.append({"name": "guards", "kind": "guards", "cost": 5})
    us.append({"name": "options", "kind": "options", "cost": 5})
    return us


def shape_mutations(C, D, N):
    """all single-edit mutations of (C, N, ..., N)"""
    good = (C,) + (N,) * D
    out = {}
    out["channel+1"] = (C + 1,) + (N,) * D
    out["channel-1"] = (C - 1,) + (N,) * D
    out["drop_channel_axis"] = (N,) * D
    out["drop_spatial_axis"] = (C,) + (N,) * (D - 1)
    out["extra_spatial_axis"] = (C,) + (N,) * (D + 1)
    out["leading_batch_axis_1"] = (1,) + good
    out["leading_batch_axis_3"] = (3,) + good
    out["trailing_axis"] = good + (1,)
    for a in range(D):
        for dn in (+1, -1):
            s = list(good)
            s[1 + a] = N + dn
            out[f"axis{a}{dn:+d}"] = tuple(s)
    out["all_axes+1"] = (C,) + (N + 1,) * D
    out["all_axes_halved"] = (C,) + (N // 2,) * D
    return good, out


def expect_value_error(rec, fn, sig, msg, **info):
    rec.count(states=1, transitions=1, traces=1)
    try:
        r = fn()
    except ValueError:
        rec.check(True, "", "")
        rec.outcome(sig, repr(sorted(info.items())), "ValueError")
        return True
    except Exception as e:  # wrong exception type: not the documented rejection
        rec.check(False, sig + "/wrong_exception", msg + f" (raised {type(e).__name__} instead of ValueError)", error=repr(e)[:200], **info)
        rec.outcome(sig, repr(sorted(info.items())), type(e).__name__)
        return False
    rec.check(False, sig, msg + " (accepted)", result_shape=list(getattr(r, "shape", ())), **info)
    rec.outcome(sig, repr(sorted(info.items())), "accepted")
    return False


def check_stepper_shapes(rec, st, C, D, N, label):
    import jax.numpy as jnp

    good, muts = shape_mutations(C, D, N)
    rec.count(states=1, transitions=1, traces=1)
    try:
        out = st(jnp.ones(good) * 0.1)
        rec.check(tuple(out.shape) == good, f"C20/{label}/good_shape_out", "a correctly shaped state does not return the same shape", D=D, got=list(out.shape))
        rec.outcome(label, D, "good", tuple(out.shape))
    except Exception as e:
        rec.check(False, f"C20/{label}/good_shape_rejected", "a correctly shaped state is rejected", D=D, error=repr(e)[:200])
    for name, shp in muts.items():
        if any(s < 0 for s in shp):
            continue
        expect_value_error(rec, lambda shp=shp: st(jnp.ones(shp) * 0.1), f"C20/{label}/{name}", "a malformed state was not rejected with ValueError", D=D, shape=list(shp))


def unit_stepper(u, rec):
    import jax.numpy as jnp

    import exponax as ex

    e = catalog.by_name()[u["entry"]]
    N = u["N"]
    for D in (1, 2, 3):
        if D not in e.dims:
            # dimension-restricted class: constructing it in another dimension must be refused
            base = e.name.split("/")[0]
            if base in ("NavierStokesVorticity", "KolmogorovFlowVorticity", "NavierStokesVelocity", "KolmogorovFlowVelocity", "GeneralVorticityConvectionStepper"):
                for order in ((0,) if e.linear else (0, 1, 2, 3, 4)):  # order 0 never evaluates the nonlinear term: the guard must not live only there
                    expect_value_error(rec, lambda D=D, order=order: e.build(ex, jnp, D, N, 2.5, 0.05, order), f"C20/dimension_guard/{base}",
                                       "a dimension-restricted stepper was constructed in an unsupported dimension", D=D, order=order)
            continue
        C = e.channels(D)
        st = e.build(ex, jnp, D, N, 2.5, 0.05, 0 if e.linear else 2)
        rec.check((st.num_spatial_dims, st.num_points, st.num_channels) == (D, N, C), f"C20/attributes/{e.name}", "stepper attributes do not reflect its configuration", D=D)
        check_stepper_shapes(rec, st, C, D, N, f"stepper/{e.name}")
        if D <= 2:
            check_stepper_shapes(rec, ex.RepeatedStepper(st, 2), C, D, N, f"repeated/{e.name}")
    rec.sample({"entry": e.name, "mutations": sorted(shape_mutations(1, 2, 8)[1])})


def generic_build(cls, D, N):
    sig = inspect.signature(cls.__init__)
    if "domain_extent" in sig.parameters:
        return cls(D, 2.5, N, 0.05)
    return cls(D, N)


def unit_exports(u, rec):
    """every exported BaseStepper subclass, built with its DEFAULT arguments (a class missing from the catalogue is still covered)"""
    import jax.numpy as jnp

    import exponax as ex

    classes = catalog.exported_stepper_classes()
    known = catalog.catalogue_class_names()
    rec.dim("exported_classes", len(classes))
    missing = sorted(set(classes) - known)
    if missing:
        rec.notes.append(f"exported classes not in the catalogue (covered with default arguments only): {missing}")
    N = 8
    for ci, (name, cls) in enumerate(sorted(classes.items())):
        if ci % u["parts"] != u["part"]:
            continue
        built = 0
        for D in (1, 2, 3):
            try:
                st = generic_build(cls, D, N)
            except ValueError:
                rec.outcome("export", name, D, "refused")
                continue
            except Exception as e:
                rec.check(False, f"C20/exports/{name}/construct", "default construction fails with a non-ValueError", D=D, error=repr(e)[:200])
                continue
            built += 1
            check_stepper_shapes(rec, st, st.num_channels, D, N, f"export/{name}")
        rec.check(built >= 1, f"C20/exports/{name}/never_constructible", "class cannot be constructed in any dimension", name=name)
    # Poisson: the spatial shape must match (any channel count is allowed)
    for D in ((1, 2, 3) if u["part"] == 0 else ()):
        for order in (2, 4):
            ps = ex.poisson.Poisson(D, 2.5, N, order=order)
            for C in (1, 2, 3):
                good = (C,) + (N,) * D
                out = ps(jnp.ones(good))
                rec.count(states=1, transitions=1, traces=1)
                rec.check(tuple(out.shape) == good, "C20/poisson/good_shape_out", "Poisson does not return the input shape", D=D, C=C)
            _, muts = shape_mutations(1, D, N)
            for nm, shp in muts.items():
                if nm.startswith("channel") or any(s < 0 for s in shp) or nm == "drop_channel_axis" and False:
                    continue
                if nm in ("leading_batch_axis_1", "leading_batch_axis_3"):
                    # (B, 1, N..): f.shape[1:] = (1, N..) != spatial shape -> must be rejected
                    pass
                if nm == "drop_channel_axis" and D >= 2 and False:
                    continue
                expect_value_error(rec, lambda shp=shp: ps(jnp.ones(shp)), f"C20/poisson/{nm}", "Poisson accepted a right-hand side with the wrong spatial shape", D=D, shape=list(shp))
    rec.sample({"exported": sorted(classes), "not_in_catalogue": missing})


def unit_guards(u, rec):
    import jax.numpy as jnp

    import exponax as ex

    N = 8
    for D in (1, 2, 3):
        DO = ex.spectral.build_derivative_operator(D, 2.5, N)
        nf = ex.nonlin_fun
        if D != 2:
            expect_value_error(rec, lambda: nf.VorticityConvection2d(D, N, derivative_operator=DO, dealiasing_fraction=2 / 3), "C20/guard/VorticityConvection2d", "2D-only term built in another dimension", D=D)
            expect_value_error(rec, lambda: nf.VorticityConvection2dKolmogorov(D, N, derivative_operator=DO, dealiasing_fraction=2 / 3), "C20/guard/VorticityConvection2dKolmogorov", "2D-only term built in another dimension", D=D)
        if D != 3:
            expect_value_error(rec, lambda: nf.ProjectedConvection3d(D, N, derivative_operator=DO), "C20/guard/ProjectedConvection3d", "3D-only term built in another dimension", D=D)
            expect_value_error(rec, lambda: nf.ProjectedConvection3dKolmogorov(D, N, derivative_operator=DO, dealiasing_fraction=2 / 3), "C20/guard/ProjectedConvection3dKolmogorov", "3D-only term built in another dimension", D=D)
        # order parity
        for order in range(0, 8):
            if order % 2 == 1:
                expect_value_error(rec, lambda order=order: ex.spectral.build_laplace_operator(DO, order=order), "C20/parity/laplace_odd", "odd Laplace order accepted", D=D, order=order)
                op = ex.spectral.build_gradient_inner_product_operator(DO, jnp.ones(D), order=order)
                rec.check(op.shape == (1,) + DO.shape[1:], "C20/parity/gradient_inner_odd_rejected", "valid odd order rejected / wrong shape", D=D, order=order)
            else:
                expect_value_error(rec, lambda order=order: ex.spectral.build_gradient_inner_product_operator(DO, jnp.ones(D), order=order), "C20/parity/gradient_inner_even",
                                   "even gradient-inner-product order accepted", D=D, order=order)
                op = ex.spectral.build_laplace_operator(DO, order=order)
                rec.check(op.shape == (1,) + DO.shape[1:], "C20/parity/laplace_even_rejected", "valid even order rejected / wrong shape", D=D, order=order)
            rec.count(states=1, transitions=1, traces=1)
        for bad in (D + 1, max(D - 1, 0) if D > 1 else 2):
            expect_value_error(rec, lambda bad=bad: ex.spectral.build_gradient_inner_product_operator(DO, jnp.ones(bad), order=1), "C20/guard/velocity_shape",
                               "velocity vector of the wrong length accepted", D=D, length=bad)
        # make_incompressible needs as many channels as spatial axes
        for C in (D - 1, D + 1):
            if C >= 1:
                expect_value_error(rec, lambda C=C: ex.spectral.make_incompressible(jnp.ones((C,) + (N,) * D)), "C20/guard/make_incompressible_channels",
                                   "make_incompressible accepted a field whose channel count differs from its dimension", D=D, C=C)
        # multi-channel convection refuses a channel count != D ; Gray-Scott needs 2 channels ; orders outside 0..4
        cv = nf.ConvectionNonlinearFun(D, N, derivative_operator=DO, single_channel=False)
        for C in (D + 1, D + 2):
            expect_value_error(rec, lambda C=C: cv(jnp.ones((C,) + DO.shape[1:], dtype=complex)), "C20/guard/convection_channels", "multi-channel convection accepted C != D", D=D, C=C)
        cvc = nf.ConvectionNonlinearFun(D, N, derivative_operator=DO, single_channel=False, conservative=True)
        for C in (D + 1, D + 2):
            expect_value_error(rec, lambda C=C: cvc(jnp.ones((C,) + DO.shape[1:], dtype=complex)), "C20/guard/conservative_convection_channels",
                               "conservative multi-channel convection accepted C != D", D=D, C=C)
        try:  # neither class is re-exported: if a refactor moves them, these two guard checks are skipped (not a violation)
            from exponax.ic._gaussian_blob import GaussianBlob
            from exponax.stepper.reaction._gray_scott import GrayScottNonlinearFun
        except ImportError:
            GaussianBlob = GrayScottNonlinearFun = None
            rec.dim("skipped", "private Gray-Scott term / Gaussian blob classes not importable")
        if GrayScottNonlinearFun is not None:
            gsn = GrayScottNonlinearFun(D, N, dealiasing_fraction=0.5, feed_rate=0.03, kill_rate=0.055)
            for C in (1, 3):
                expect_value_error(rec, lambda C=C: gsn(jnp.ones((C,) + DO.shape[1:], dtype=complex)), "C20/guard/gray_scott_channels", "Gray-Scott reaction term accepted C != 2", D=D, C=C)
            rec.check(gsn(jnp.ones((2,) + DO.shape[1:], dtype=complex)).shape == (2,) + DO.shape[1:], "C20/guard/gray_scott_valid_rejected", "Gray-Scott reaction term rejects / reshapes a valid state", D=D)
        if GaussianBlob is not None:
            # a Gaussian blob built for D dimensions refuses a grid of another dimension
            blob = GaussianBlob(jnp.full((D,), 0.5), 0.05 * jnp.eye(D))
            for D2 in (1, 2, 3):
                if D2 != D:
                    expect_value_error(rec, lambda D2=D2: blob(ex.make_grid(D2, 1.0, 6)), "C20/guard/gaussian_blob_dimension", "Gaussian blob evaluated on a grid of another dimension", D=D, grid_D=D2)
            rec.check(blob(ex.make_grid(D, 1.0, 6)).shape == (1,) + (6,) * D, "C20/guard/gaussian_blob_valid_rejected", "Gaussian blob rejects / reshapes its own dimension", D=D)
        expect_value_error(rec, lambda: nf.GeneralNonlinearFun(D, N, derivative_operator=DO, dealiasing_fraction=2 / 3, scale_list=(1.0, 2.0)), "C20/guard/general_nonlinear_scale_list",
                           "scale list of the wrong length accepted", D=D)
        expect_value_error(rec, lambda: ex.stepper.generic.GeneralNonlinearStepper(D, 2.5, N, 0.05, nonlinear_coefficients=(1.0, 2.0)), "C20/guard/general_nonlinear_coefficients",
                           "nonlinear coefficient list of the wrong length accepted", D=D)
        rec.count(states=1, transitions=1, traces=1)
        try:
            ex.stepper.Burgers(D, 2.5, N, 0.05, order=5)
            rec.check(False, "C20/guard/order5_accepted", "ETDRK order 5 accepted", D=D)
        except (NotImplementedError, ValueError):
            rec.check(True, "", "")
        if D == 1:
            expect_value_error(rec, lambda: ex.ifft(jnp.ones((1, N // 2 + 1), dtype=complex)), "C20/guard/ifft_1d_num_points", "1D ifft without num_points accepted")
    expect_value_error(rec, lambda: ex.spectral.build_scaling_array(2, N, mode="nonsense"), "C20/guard/scaling_mode", "invalid scaling mode accepted")
    rec.sample({"guards": ["VorticityConvection2d", "ProjectedConvection3d", "parity 0..7", "velocity shape", "channels"]})


def unit_options(u, rec):
    import jax
    import jax.numpy as jnp

    import exponax as ex

    ic = ex.ic
    for D in (1, 2, 3):
        # (zero_mean=False, std_one=True) and (std_one, max_one) are documented-invalid
        expect_value_error(rec, lambda: ic.DiffusedNoise(D, zero_mean=False, std_one=True), "C20/options/DiffusedNoise/zero_mean_std", "invalid normalisation accepted", D=D)
        expect_value_error(rec, lambda: ic.DiffusedNoise(D, std_one=True, max_one=True), "C20/options/DiffusedNoise/std_max", "invalid normalisation accepted", D=D)
        expect_value_error(rec, lambda: ic.GaussianRandomField(D, zero_mean=False, std_one=True), "C20/options/GaussianRandomField/zero_mean_std", "invalid normalisation accepted", D=D)
        expect_value_error(rec, lambda: ic.GaussianRandomField(D, std_one=True, max_one=True), "C20/options/GaussianRandomField/std_max", "invalid normalisation accepted", D=D)
        expect_value_error(rec, lambda: ic.RandomTruncatedFourierSeries(D, std_one=True, max_one=True), "C20/options/TruncatedFourierSeries/std_max", "invalid normalisation accepted", D=D)
        for off in ((0.5, 1.0), (0.0, 1.0), (-1.0, 0.0), (-1.0, 1.0), (2.0, 2.0)):
            expect_value_error(rec, lambda off=off: ic.RandomTruncatedFourierSeries(D, offset_range=off, std_one=True), "C20/options/TruncatedFourierSeries/offset_std",
                               "non-zero offset range together with std_one accepted", D=D, offset_range=list(off))
        expect_value_error(rec, lambda: ic.RandomDiscontinuities(D, zero_mean=False, std_one=True), "C20/options/RandomDiscontinuities/zero_mean_std", "invalid normalisation accepted", D=D)
        expect_value_error(rec, lambda: ic.RandomDiscontinuities(D, zero_mean=True, std_one=True, max_one=True), "C20/options/RandomDiscontinuities/std_max", "invalid normalisation accepted", D=D)
        expect_value_error(rec, lambda: ic.Discontinuities((), zero_mean=False, std_one=True), "C20/options/Discontinuities/zero_mean_std", "invalid normalisation accepted", D=D)
        expect_value_error(rec, lambda: ic.Discontinuities((), std_one=True, max_one=True), "C20/options/Discontinuities/std_max", "invalid normalisation accepted", D=D)
        if D != 1:
            expect_value_error(rec, lambda: ic.RandomSineWaves1d(D), "C20/options/RandomSineWaves1d/dimension", "1D-only generator built in another dimension", D=D)
            sw = ic.SineWaves1d(1.0, (1.0,), (1,), (0.0,))
            expect_value_error(rec, lambda: sw(ex.make_grid(D, 1.0, 8)), "C20/options/SineWaves1d/dimension", "1D-only initial condition evaluated on a higher-dimensional grid", D=D)
    for off in ((0.5, 1.0), (0.0, 1.0), (-1.0, 0.0)):
        expect_value_error(rec, lambda off=off: ic.RandomSineWaves1d(1, offset_range=off, std_one=True), "C20/options/RandomSineWaves1d/offset_std", "invalid option combination accepted",
                           offset_range=list(off))
    expect_value_error(rec, lambda: ic.RandomSineWaves1d(1, std_one=True, max_one=True), "C20/options/RandomSineWaves1d/std_max", "invalid option combination accepted")
    expect_value_error(rec, lambda: ic.SineWaves1d(1.0, (1.0,), (1,), (0.0,), offset=0.3, std_one=True), "C20/options/SineWaves1d/offset_std", "invalid option combination accepted")
    expect_value_error(rec, lambda: ic.SineWaves1d(1.0, (1.0,), (1,), (0.0,), std_one=True, max_one=True), "C20/options/SineWaves1d/std_max", "invalid option combination accepted")
    expect_value_error(rec, lambda: ic.SineWaves1d(1.0, (1.0, 2.0), (1,), (0.0,)), "C20/options/SineWaves1d/lengths", "amplitude / wavenumber / phase tuples of different length accepted")
    # valid combinations are accepted
    for D in (1, 2):
        for kw in (dict(zero_mean=True, std_one=True), dict(zero_mean=True, max_one=True), dict(zero_mean=False, max_one=True), dict()):
            g = ic.DiffusedNoise(D, **kw)
            out = g(8, key=jax.random.PRNGKey(0))
            rec.count(states=1, transitions=1, traces=1)
            rec.check(out.shape == (1,) + (8,) * D, "C20/options/valid_rejected", "a valid option combination does not produce a state", D=D, kw=kw)
    # metrics: normalized / symmetric need a reference
    a = jnp.ones((1, 8))
    M = ex.metrics
    expect_value_error(rec, lambda: M.spatial_norm(a, None, mode="normalized"), "C20/metrics/spatial_normalized_without_ref", "normalized mode without reference accepted")
    expect_value_error(rec, lambda: M.spatial_norm(a, None, mode="symmetric"), "C20/metrics/spatial_symmetric_without_ref", "symmetric mode without reference accepted")
    expect_value_error(rec, lambda: M.fourier_norm(a, None, mode="normalized"), "C20/metrics/fourier_normalized_without_ref", "normalized mode without reference accepted")
    for fn in (M.spatial_norm, M.fourier_norm):
        v = float(fn(a, None, mode="absolute"))
        rec.count(states=1, transitions=1, traces=1)
        rec.check(np.isfinite(v), "C20/metrics/absolute_without_ref_rejected", "absolute mode without reference must work", fn=fn.__name__)
    # stack_sub_trajectories guards
    expect_value_error(rec, lambda: ex.stack_sub_trajectories(jnp.ones((3, 2)), 4), "C20/utils/stack_too_long", "window longer than the trajectory accepted")
    expect_value_error(rec, lambda: ex.stack_sub_trajectories((jnp.ones((3, 2)), jnp.ones((4, 2))), 2), "C20/utils/stack_ragged", "ragged trajectory accepted")
    rec.sample({"option_guards": "normalisation flag combinations, 1D-only generators, metric modes without reference, window guards"})


def run_unit(u, rec):
    {"stepper": unit_stepper, "exports": unit_exports, "guards": unit_guards, "options": unit_options}[u["kind"]](u, rec)

"""
C04 - grid / FFT / Fourier-coefficient conventions are mutually consistent.

Full enumeration of every wavevector of the N^D grid (negative leading-axis entries, DC, every Nyquist
combination) x amplitudes/phases x the three scaling modes x both meshgrid indexings; round trip on every
grid delta (linearity => every real state).  Oracles are explicit DFT sums and the documented semantics,
not the library's own layout helpers.
"""

import itertools
import math

import numpy as np

from mc import ref

EPS = 2.3e-16
RULE = ("one state per (D, N, indexing, wavevector k, amplitude/phase) single-mode field, per grid delta, per (D, N, cutoff) mask, per grid option; "
        "a transition is one library call (fft, ifft, scaling, coefficient read-off, mask, grid); distinct_nontrivial = distinct observed arrays")
ASSUMPTIONS = [
    "lift L for the round trip: fft/ifft are linear, so all grid deltas decide every real state",
    "numpy.fft is used only to locate non-zero entries of an explicitly constructed single-mode field; coefficient values come from an explicit DFT sum",
]
AP = [(1.0, 0.0), (0.7, math.pi / 3), (-2.0, math.pi / 2), (1.3, -2.1)]
MODES = ["norm_compensation", "reconstruction", "coef_extraction"]


def bounds(tier):
    if tier == "quick":
        return {"N": {1: list(range(2, 17)), 2: list(range(2, 9)), 3: [2, 3, 4, 5]}, "amp_phase": AP, "indexing": ["ij", "xy"]}
    return {"N": {1: list(range(2, 25)), 2: list(range(2, 13)), 3: list(range(2, 9))}, "amp_phase": AP, "indexing": ["ij", "xy"]}


def units(tier, seed):
    b = bounds(tier)
    us = []
    for D in (1, 2, 3):
        for N in b["N"][D]:
            for indexing in ("ij", "xy"):
                us.append({"name": f"modes/D{D}/N{N}/{indexing}", "kind": "modes", "D": D, "N": N, "indexing": indexing, "cost": N ** (2 * D)})
            us.append({"name": f"misc/D{D}/N{N}", "kind": "misc", "D": D, "N": N, "cost": N ** (2 * D) / 2})
    # wide scan of N for the integer-valued helpers: N*(1/N) != 1 in floating point for N = 49, 98, 103, 107, ... - wavenumbers must still be exact integers
    top = 260 if tier == "quick" else 520
    for lo in range(2, top, 37):
        us.append({"name": f"scan/N{lo}-{min(lo + 36, top)}", "kind": "scan", "Ns": list(range(lo, min(lo + 37, top + 1))), "cost": 4000})
    return us


def lib_axes_perm(D, indexing):
    """axis of the ARRAY along which coordinate d varies, for the given meshgrid indexing"""
    if indexing == "ij" or D == 1:
        return list(range(D))
    p = list(range(D))
    p[0], p[1] = 1, 0
    return p


def unit_modes(u, rec):
    import jax.numpy as jnp

    import exponax as ex

    D, N, indexing = u["D"], u["N"], u["indexing"]
    L = 2.5
    rec.dim("D", D)
    rec.dim("N", N)
    rec.dim("indexing", indexing)
    G = np.asarray(ex.make_grid(D, L, N, indexing=indexing))  # (D, N..N) library grid
    # own grid in the same indexing: coordinate d varies along array axis perm[d]
    perm = lib_axes_perm(D, indexing)
    xs = np.arange(N) * (L / N)
    own = np.empty_like(G)
    for d in range(D):
        shape = [1] * D
        shape[perm[d]] = N
        own[d] = np.broadcast_to(xs.reshape(shape), (N,) * D)
    rec.close(np.max(np.abs(G - own)), 4 * EPS * L, f"C04/make_grid/{indexing}", "make_grid is not j*L/N along the documented axis", D=D, N=N)
    rec.count(states=1, transitions=1, traces=1)

    WN = np.asarray(ex.spectral.build_wavenumbers(D, N, indexing=indexing))
    wshape = (N,) * (D - 1) + (N // 2 + 1,)
    if not rec.check(WN.shape == (D,) + wshape, f"C04/wavenumbers/shape/{indexing}", "wavenumber array does not have the rfft shape (D, N.., N//2+1)",
                     D=D, N=N, got=list(WN.shape)):
        return
    SC = {}
    for m in MODES:
        SC[m] = np.asarray(ex.spectral.build_scaling_array(D, N, mode=m, indexing=indexing))
        if not rec.check(SC[m].shape == (1,) + wshape, f"C04/scaling/shape/{indexing}", "scaling array does not have shape (1, N.., N//2+1)",
                         D=D, N=N, mode=m, got=list(SC[m].shape)):
            return
    SW = np.asarray(ex.spectral.build_scaled_wavenumbers(D, L, N, indexing=indexing))
    DO = np.asarray(ex.spectral.build_derivative_operator(D, L, N, indexing=indexing))
    rec.close(np.max(np.abs(SW - WN * (2 * np.pi / L))), 8 * EPS * N * 2 * np.pi / L, f"C04/scaled_wavenumbers/{indexing}", "scaled wavenumbers != 2*pi/L * wavenumbers", D=D, N=N)
    rec.close(np.max(np.abs(DO - 1j * WN * (2 * np.pi / L))), 8 * EPS * N * 2 * np.pi / L, f"C04/derivative_operator/{indexing}", "derivative operator != i*2*pi/L*k", D=D, N=N)
    # every stored index is named by exactly one wavevector class and every class {k,-k} is stored
    classes = {}
    for idx in np.ndindex(*wshape):
        k = tuple(int(round(WN[d][idx])) for d in range(D))
        kc = tuple(v % N for v in k)
        rec.check(kc not in classes, f"C04/wavenumbers/duplicate/{indexing}", "two stored entries name the same wavevector", D=D, N=N, k=k)
        classes[kc] = idx
        rec.check(all(-(N // 2) <= v <= N // 2 for v in k), f"C04/wavenumbers/range/{indexing}", "wavenumber outside [-N/2, N/2]", D=D, N=N, k=k)

    stored_k = np.stack([WN[d].ravel() for d in range(D)], axis=1)  # (#stored, D) integer wavenumbers
    kap = stored_k * (2 * np.pi / L)
    Xflat = G.reshape(D, -1)  # (D, N^D)
    Ematrix = np.exp(1j * (kap @ Xflat))  # (#stored, N^D) for the reconstruction promise
    scale_fft = float(N**D)

    ks = ref.all_wavevectors(D, N)
    for k in ks:
        nyq = ref.is_nyquist(k, N)
        selfc = ref.self_conjugate(k, N)
        for ai, (a, ph) in enumerate(AP):
            if ai >= 2 and (D == 3 and N > 4):
                continue  # the two extra amplitude/phase pairs are dropped on the largest 3D grids only
            f = a * np.cos(sum((2 * np.pi / L) * k[d] * G[d] for d in range(D)) + ph)
            fj = jnp.asarray(f[None])
            fh = np.asarray(ex.fft(fj))[0]
            rec.count(states=1, transitions=1, traces=1)
            # expected location(s): stored index whose named wavevector is +-k (mod N)
            kc = tuple(v % N for v in k)
            mk = tuple((-v) % N for v in k)
            want_idx = {classes[c] for c in (kc, mk) if c in classes}
            if not rec.check(len(want_idx) >= 1, f"C04/mode_location/missing/{indexing}", "no stored entry names this wavevector", D=D, N=N, k=k):
                continue
            amp_here = abs(a) if not selfc else abs(a * math.cos(ph))
            nz = {tuple(i) for i in np.argwhere(np.abs(fh) > 1e-9 * scale_fft * max(1.0, abs(a)))}
            if amp_here > 1e-6:
                rec.check(nz == want_idx, f"C04/mode_location/{indexing}",
                          "a single-mode field is non-zero in other stored entries than those the wavenumber array names +-k",
                          D=D, N=N, k=k, a=a, phase=ph, nonzero=sorted(nz)[:6], expected=sorted(want_idx))
            # P1 norm compensation: fh/scaling = DFT coefficient c_{k'} of the stored wavevector k'
            for idx in want_idx:
                kk = tuple(int(round(WN[d][idx])) for d in range(D))
                # explicit DFT sum on the library grid ordering: sum u(x) exp(-i kappa.x)/N^D
                c = np.sum(f * np.exp(-1j * sum((2 * np.pi / L) * kk[d] * G[d] for d in range(D)))) / scale_fft
                got = fh[idx] / SC["norm_compensation"][(0,) + idx]
                rec.close(abs(got - c), 1e3 * EPS * abs(a), f"C04/scaling/norm_compensation/{indexing}",
                          "fft/norm_compensation scaling is not the DFT coefficient", D=D, N=N, k=k, a=a, phase=ph, got=complex(got), want=complex(c))
            # P2 reconstruction: Re sum_stored fh/recon * exp(i kappa.x) == u
            coeff = (fh / SC["reconstruction"][0]).ravel()
            recon = np.real(coeff @ Ematrix).reshape(f.shape)
            rec.close(np.max(np.abs(recon - f)), 1e3 * EPS * abs(a) * max(1, len(coeff)) ** 0.5, f"C04/scaling/reconstruction/{indexing}",
                      "sum over stored modes of reconstruction-scaled coefficients times exp(i k.x) does not reproduce the field",
                      D=D, N=N, k=k, a=a, phase=ph)
            # get_fourier_coefficients == fft/scaling (all modes, no rounding), rounding = jnp.round(., 5)
            if ai < 2:
                for m in MODES + [None]:
                    gc = np.asarray(ex.spectral.get_fourier_coefficients(fj, scaling_compensation_mode=m, round=None, indexing=indexing))[0]
                    wantc = fh / (SC[m][0] if m is not None else 1.0)
                    rec.close(np.max(np.abs(gc - wantc)), 1e3 * EPS * abs(a) * (scale_fft if m is None else 1.0),
                              f"C04/get_fourier_coefficients/{m}/{indexing}", "get_fourier_coefficients != fft / scaling array", D=D, N=N, k=k)
                    rec.count(transitions=1)
                g5 = np.asarray(ex.spectral.get_fourier_coefficients(fj, indexing=indexing))[0]
                w5 = np.round(fh / SC["coef_extraction"][0], 5)
                rec.close(np.max(np.abs(g5 - w5)), 1.001e-5, f"C04/get_fourier_coefficients/default_round/{indexing}",
                          "default get_fourier_coefficients is not the coef_extraction read-off rounded to 5 decimals", D=D, N=N, k=k)
            rec.outcome_array(fh.ravel()[:: max(1, fh.size // 8)])
        # P3 tensor-product modes: a * prod_d (cos|sin)(kappa_d x_d): coef_extraction reads a * prod(1 | -i) at the non-negative index
        if all(v >= 0 for v in k):
            for pattern in itertools.product("cs", repeat=D):
                if any(p == "s" and (k[d] == 0 or (N % 2 == 0 and k[d] == N // 2)) for d, p in enumerate(pattern)):
                    continue  # sin of the zero / Nyquist wavenumber vanishes on the grid
                if N % 2 == 0 and any(k[d] == N // 2 for d in range(D)) and False:
                    continue
                a = 1.7
                f = a * np.ones((N,) * D)
                for d, p in enumerate(pattern):
                    arg = (2 * np.pi / L) * k[d] * G[d]
                    f = f * (np.cos(arg) if p == "c" else np.sin(arg))
                # k_d = -N/2 is named +N/2 on the last axis and -N/2 on leading axes; all_wavevectors only yields -N/2, so k>=0 excludes Nyquist: add it
                ce = np.asarray(ex.spectral.get_fourier_coefficients(jnp.asarray(f[None]), round=None, indexing=indexing))[0]
                kc = tuple(v % N for v in k)
                idx = classes[kc] if kc in classes else classes[tuple((-v) % N for v in k)]
                want = a * np.prod([1.0 if p == "c" else -1j for p in pattern])
                rec.count(states=1, transitions=1, traces=1)
                rec.close(abs(ce[idx] - want), 1e3 * EPS * a, f"C04/scaling/coef_extraction/{indexing}",
                          "coef_extraction does not read the amplitude of a tensor-product mode (a for cos, -i*a per sine factor)",
                          D=D, N=N, k=k, pattern="".join(pattern), got=complex(ce[idx]), want=complex(want))
    # Nyquist tensor-product cosines on even grids (k_d = N/2 reads amplitude a as well)
    if N % 2 == 0:
        for kk in itertools.product([0, 1, N // 2] if N > 2 else [0, 1], repeat=D):
            if N // 2 not in kk:
                continue
            a = 0.9
            f = a * np.ones((N,) * D)
            for d in range(D):
                f = f * np.cos((2 * np.pi / L) * kk[d] * G[d])
            ce = np.asarray(ex.spectral.get_fourier_coefficients(jnp.asarray(f[None]), round=None, indexing=indexing))[0]
            kc = tuple(v % N for v in kk)
            idx = classes[kc] if kc in classes else classes[tuple((-v) % N for v in kk)]
            rec.count(states=1, transitions=1, traces=1)
            rec.close(abs(ce[idx] - a), 1e3 * EPS * a, f"C04/scaling/coef_extraction_nyquist/{indexing}",
                      "coef_extraction does not read the amplitude of a Nyquist cosine", D=D, N=N, k=kk, got=complex(ce[idx]))
    # derivative with the same indexing: analytic partial derivatives of a Nyquist-free mode, channel c <-> coordinate c
    for k in ks:
        if ref.is_nyquist(k, N) or all(v == 0 for v in k):
            continue
        arg = sum((2 * np.pi / L) * k[d] * G[d] for d in range(D)) + 0.4
        f = np.cos(arg)
        dv = np.asarray(ex.derivative(jnp.asarray(f[None]), L, indexing=indexing))
        want = np.stack([-(2 * np.pi / L) * k[d] * np.sin(arg) for d in range(D)])
        rec.count(states=1, transitions=1, traces=1)
        if rec.check(dv.shape == want.shape, f"C04/derivative/shape/{indexing}", "derivative has the wrong shape", D=D, N=N, got=list(dv.shape)):
            rec.close(np.max(np.abs(dv - want)), 1e3 * EPS * (2 * np.pi / L) * N, f"C04/derivative/{indexing}",
                      "derivative(indexing) is not the analytic gradient with channel c = d/dx_c", D=D, N=N, k=k)
    # low-pass masks with this indexing
    # integer cutoffs and the fractional ones the dealiasing rule produces (fraction*(N//2) - 1 is rarely an integer)
    for cutoff in [c + f for c in range(0, N // 2 + 2) for f in (0.0, 1.0 / 3.0, 0.5)] + [-1.0, -1.0 / 3.0]:
        for sep in (True, False):
            m = np.asarray(ex.spectral.low_pass_filter_mask(D, N, cutoff=cutoff, axis_separate=sep, indexing=indexing))
            if not rec.check(m.shape == (1,) + wshape, f"C04/low_pass/shape/{indexing}", "mask shape", D=D, N=N, got=list(m.shape)):
                continue
            kabs = np.abs(WN)
            want = np.all(kabs <= cutoff, axis=0) if sep else ((np.sqrt(np.sum(WN.astype(float) ** 2, axis=0)) <= cutoff + 1e-12) if cutoff >= 0 else np.zeros(wshape, dtype=bool))
            rec.count(states=1, transitions=1, traces=1)
            rec.check(np.array_equal(m[0], want), f"C04/low_pass/{'box' if sep else 'sphere'}/{indexing}",
                      "low-pass mask is not {|k_d|<=c for all d} / {|k|_2<=c}", D=D, N=N, cutoff=cutoff)
            rec.outcome("mask", D, N, cutoff, sep, int(m.sum()))
    # make_incompressible with this indexing (D>=2): divergence-free w.r.t. the same-indexing wavenumbers, identity on solenoidal fields
    if D >= 2 and N >= 3:
        basis = ref.real_basis(D, N, nyquist=False)[:40]
        for (k, cs) in basis:
            for c in range(D):
                arg = sum((2 * np.pi / L) * k[d] * G[d] for d in range(D))
                f = np.zeros((D,) + (N,) * D)
                f[c] = np.cos(arg) if cs == "c" else np.sin(arg)
                out = np.asarray(ex.spectral.make_incompressible(jnp.asarray(f), indexing=indexing))
                oh = np.asarray(ex.fft(jnp.asarray(out)))
                div = np.sum(1j * WN * oh, axis=0)
                rec.count(states=1, transitions=1, traces=1)
                rec.close(np.max(np.abs(div)) / scale_fft, 1e3 * EPS * N, f"C04/make_incompressible/divergence/{indexing}",
                          "make_incompressible(indexing) leaves a divergence w.r.t. the matching wavenumbers", D=D, N=N, k=k, channel=c)
                k2 = sum(v * v for v in k)
                want = f.copy()
                if k2 > 0:
                    for e in range(D):
                        want[e] = f[e] - (k[e] * k[c] / k2) * f[c]
                rec.close(np.max(np.abs(out - want)), 1e3 * EPS, f"C04/make_incompressible/value/{indexing}",
                          "make_incompressible(indexing) is not the Leray projection u - k (k.u)/|k|^2", D=D, N=N, k=k, channel=c)
    rec.sample({"D": D, "N": N, "indexing": indexing, "wavevectors": len(ks), "first": [list(k) for k in ks[:5]], "amp_phase": AP})


def unit_misc(u, rec):
    import jax.numpy as jnp

    import exponax as ex

    D, N = u["D"], u["N"]
    rec.dim("D", D)
    rec.dim("N", N)
    # round trip on every delta (+ superposition); explicit num_points and inferred num_points (D>=2)
    Dl = ref.deltas(D, N)
    w = ref.weights(len(Dl), u["seed"])
    allst = np.concatenate([Dl, np.tensordot(w, Dl, axes=1)[None]])
    for i, s in enumerate(allst):
        for C in (1, 2):
            st = np.stack([s] * C) if C == 1 else np.stack([s, -0.5 * s[::-1]])
            sj = jnp.asarray(st)
            sh = ex.fft(sj)
            rec.check(tuple(sh.shape) == (C,) + (N,) * (D - 1) + (N // 2 + 1,), "C04/fft/shape", "fft output shape", D=D, N=N, got=list(sh.shape))
            back = np.asarray(ex.ifft(sh, num_spatial_dims=D, num_points=N))
            rec.count(states=1, transitions=2, traces=1)
            if rec.check(back.shape == st.shape, "C04/roundtrip/shape", "ifft(fft(u)) has a different shape", D=D, N=N, got=list(back.shape)):
                rec.close(np.max(np.abs(back - st)), 1e3 * EPS * max(1.0, np.max(np.abs(st))), "C04/roundtrip", "ifft(fft(u)) != u", D=D, N=N, delta=i, C=C)
            if D >= 2:
                b2 = np.asarray(ex.ifft(sh))
                if rec.check(b2.shape == st.shape, "C04/roundtrip_inferred/shape", "ifft(fft(u)) with inferred num_points has a different shape",
                             D=D, N=N, got=list(b2.shape)):
                    rec.close(np.max(np.abs(b2 - st)), 1e3 * EPS * max(1.0, np.max(np.abs(st))), "C04/roundtrip_inferred", "ifft(fft(u)) != u (inferred N)", D=D, N=N)
            elif i == 0:
                try:
                    ex.ifft(sh)
                    rec.check(False, "C04/ifft/1d_requires_num_points", "1D ifft without num_points was accepted", N=N)
                except ValueError:
                    rec.check(True, "", "")
            if i % 7 == 0:
                rec.outcome_array(np.asarray(sh).ravel()[:16])
    # oddball mask: removes exactly the modes with some |k_d| = N/2 on even N, nothing on odd N
    W = ref.rfft_wavenumbers(D, N)
    m = np.asarray(ex.spectral.oddball_filter_mask(D, N))
    want = np.ones(W.shape[1:], dtype=bool)
    if N % 2 == 0:
        for d in range(D):
            want &= np.abs(W[d]) != N // 2
    rec.count(states=1, transitions=1, traces=1)
    rec.check(m.shape == (1,) + W.shape[1:] and np.array_equal(m[0], want), "C04/oddball_mask", "oddball mask does not remove exactly the Nyquist modes", D=D, N=N)
    # own rfft layout agrees with the library's ij layout (binds mc.ref to the implementation)
    WN = np.asarray(ex.spectral.build_wavenumbers(D, N))
    rec.check(np.array_equal(np.mod(WN - W, N), np.zeros_like(W)), "C04/wavenumbers/layout", "library wavenumber layout differs from the documented rfft layout", D=D, N=N)
    if N % 2 == 0 and D >= 1:
        # documented: Nyquist is positive on the last axis, negative on leading axes
        rec.check(np.all(WN[-1] >= 0) and (D == 1 or np.min(WN[0]) == -(N // 2)), "C04/wavenumbers/nyquist_sign", "Nyquist sign convention", D=D, N=N)
    # shapes helpers
    rec.check(tuple(ex.spectral.wavenumber_shape(D, N)) == (N,) * (D - 1) + (N // 2 + 1,), "C04/wavenumber_shape", "wavenumber_shape", D=D, N=N)
    rec.check(tuple(ex.spectral.spatial_shape(D, N)) == (N,) * D, "C04/spatial_shape", "spatial_shape", D=D, N=N)
    rec.check(tuple(ex.spectral.space_indices(D)) == tuple(range(-D, 0)), "C04/space_indices", "space_indices", D=D)
    # get_modes_slices: disjoint, cover every non-Nyquist stored mode exactly once (and nothing else on even N except k_last = N/2 is excluded)
    cover = np.zeros(W.shape[1:], dtype=int)
    blocks = ex.spectral.get_modes_slices(D, N)
    rec.check(len(blocks) == 2 ** (D - 1), "C04/modes_slices/count", "number of blocks != 2^(D-1)", D=D, N=N, got=len(blocks))
    for b in blocks:
        rec.check(len(b) == D + 1 and b[0] == slice(None), "C04/modes_slices/form", "block does not start with the channel slice", D=D, N=N)
        cover[b[1:]] += 1
    nyq = ~want if N % 2 == 0 else np.zeros_like(want)
    # leading-axis Nyquist rows must not be covered; on the last axis the slice runs to N//2 inclusive
    lead_nyq = np.zeros_like(want)
    if N % 2 == 0:
        for d in range(D - 1):
            lead_nyq |= np.abs(W[d]) == N // 2
    rec.count(states=1, transitions=1, traces=1)
    rec.check(bool(np.all(cover <= 1)) and bool(np.all(cover[~nyq] == 1)), "C04/modes_slices/cover",
              "mode blocks overlap or miss a non-Nyquist stored mode", D=D, N=N, cover=cover)
    # blocks address the same wavenumbers at every finer resolution M >= N
    for M in (N + 1, N + 2, 2 * N, 2 * N + 1):
        WM = ref.rfft_wavenumbers(D, M)
        for b in blocks:
            a = np.stack([W[d][b[1:]] for d in range(D)])
            c = np.stack([WM[d][b[1:]] for d in range(D)])
            rec.count(transitions=1)
            rec.check(a.shape == c.shape and np.array_equal(a, c), "C04/modes_slices/resolution_consistent",
                      "a block of the N-grid addresses different wavenumbers on a finer grid", D=D, N=N, M=M)
    # make_grid options (ij): full, zero_centered
    for L in (1.0, 2 * math.pi, 0.37):
        for full in (False, True):
            for zc in (False, True):
                g = np.asarray(ex.make_grid(D, L, N, full=full, zero_centered=zc))
                n = N + 1 if full else N
                xs = np.arange(n) * (L / N) - (L / 2 if zc else 0.0)
                want_g = np.stack(np.meshgrid(*([xs] * D), indexing="ij"))
                rec.count(states=1, transitions=1, traces=1)
                if rec.check(g.shape == want_g.shape, "C04/make_grid/shape", "grid shape", D=D, N=N, full=full, got=list(g.shape)):
                    rec.close(np.max(np.abs(g - want_g)), 8 * EPS * L, "C04/make_grid/options", "grid is not left-inclusive with spacing L/N (full / zero_centered)",
                              D=D, N=N, L=L, full=full, zero_centered=zc)
                    if not full and not zc:
                        rec.check(float(g.min()) == 0.0 and float(g.max()) < L, "C04/make_grid/right_exclusive", "grid includes the right boundary", D=D, N=N, L=L)
    # wrap_bc appends the first slice on every axis
    base = np.arange(2 * N**D, dtype=float).reshape((2,) + (N,) * D) ** 1.5
    wv = np.asarray(ex.wrap_bc(jnp.asarray(base)))
    idx = np.ix_(*([np.arange(2)] + [np.arange(N + 1) % N] * D))
    rec.count(states=1, transitions=1, traces=1)
    rec.check(wv.shape == (2,) + (N + 1,) * D and np.array_equal(wv, base[idx]), "C04/wrap_bc", "wrap_bc does not append the first slice on every axis", D=D, N=N)
    # invalid scaling mode
    try:
        ex.spectral.build_scaling_array(D, N, mode="bogus")
        rec.check(False, "C04/scaling/invalid_mode_accepted", "invalid scaling mode accepted")
    except ValueError:
        rec.check(True, "", "")
    rec.sample({"D": D, "N": N, "deltas": len(Dl), "blocks": [[str(s) for s in b] for b in blocks][:2]})


def unit_scan(u, rec):
    """wide scan of N (1D and 2D): integer-valued layout helpers, masks for every integer cutoff, scaling arrays, location of edge modes"""
    import jax.numpy as jnp

    import exponax as ex

    for N in u["Ns"]:
        rec.dim("N_scan", N)
        for D in (1, 2):
            if D == 2 and N > 64 and N not in (98, 103, 107, 161, 187, 196, 197):
                continue
            W = ref.rfft_wavenumbers(D, N)
            for indexing in ("ij", "xy"):
                WN = np.asarray(ex.spectral.build_wavenumbers(D, N, indexing=indexing))
                rec.count(states=1, transitions=1, traces=1)
                if indexing == "ij":
                    rec.check(WN.shape == W.shape and np.array_equal(WN, W.astype(WN.dtype)), "C04/scan/wavenumbers_exact_integers",
                              "wavenumber array is not the exact integer layout (floating-point residue breaks equality / cutoff masks)", D=D, N=N,
                              max_dev=float(np.max(np.abs(WN - W))) if WN.shape == W.shape else None)
                else:
                    rec.check(bool(np.all(WN == np.round(WN))), "C04/scan/wavenumbers_exact_integers", "xy wavenumbers are not exact integers", D=D, N=N)
            kinf = np.max(np.abs(W), axis=0)
            for cutoff in range(0, N // 2 + 2):
                m = np.asarray(ex.spectral.low_pass_filter_mask(D, N, cutoff=cutoff))[0]
                rec.count(states=1, transitions=1, traces=1)
                if not rec.check(np.array_equal(m, kinf <= cutoff), "C04/scan/low_pass_integer_cutoff", "low-pass mask with an integer cutoff does not keep exactly |k_d| <= cutoff",
                                 D=D, N=N, cutoff=cutoff, wrong=int(np.sum(m != (kinf <= cutoff)))):
                    break
            ob = np.asarray(ex.spectral.oddball_filter_mask(D, N))[0]
            want = np.ones(W.shape[1:], dtype=bool)
            if N % 2 == 0:
                for d in range(D):
                    want &= np.abs(W[d]) != N // 2
            rec.check(np.array_equal(ob, want), "C04/scan/oddball_mask", "oddball mask does not remove exactly the Nyquist modes", D=D, N=N)
            # scaling arrays from the documented rule: per axis N at k = 0 (and at Nyquist on even grids), else N / denominator
            for mode, (dl, do) in (("norm_compensation", (1, 1)), ("reconstruction", (2, 1)), ("coef_extraction", (2, 2))):
                sc = np.asarray(ex.spectral.build_scaling_array(D, N, mode=mode))[0]
                exp_ = np.ones(W.shape[1:])
                for d in range(D):
                    den = dl if d == D - 1 else do
                    special = (W[d] == 0) | ((np.abs(W[d]) == N // 2) if N % 2 == 0 else False)
                    exp_ = exp_ * np.where(special, float(N), N / den)
                rec.count(states=1, transitions=1, traces=1)
                rec.close(float(np.max(np.abs(sc - exp_))), 1e-12 * N**D, f"C04/scan/scaling/{mode}", "scaling array differs from the documented per-axis rule", D=D, N=N)
            rec.outcome("scan", D, N, int(ob.sum()))
        # location + amplitude of three single modes (lowest, middle, highest below Nyquist) in 1D
        x = np.arange(N) / N
        for k in sorted({1, N // 4, (N - 1) // 2} - {0}):
            if k >= N / 2:
                continue
            f = 1.3 * np.cos(2 * np.pi * k * x + 0.4)
            ce = np.asarray(ex.spectral.get_fourier_coefficients(jnp.asarray(f[None]), round=None))[0]
            rec.count(states=1, transitions=1, traces=1)
            nz = np.where(np.abs(ce) > 1e-9)[0]
            rec.check(list(nz) == [k] and abs(ce[k] - 1.3 * np.exp(0.4j)) < 1e-10, "C04/scan/coef_extraction", "single mode not read off at its wavenumber with its amplitude", N=N, k=k)
    rec.sample({"scan_N": [u["Ns"][0], u["Ns"][-1]], "checks": "integer wavenumbers, every integer low-pass cutoff, oddball mask, scaling rule, 1D coefficient read-off"})


def run_unit(u, rec):
    {"modes": unit_modes, "misc": unit_misc, "scan": unit_scan}[u["kind"]](u, rec)

"""
C06 - results are invariant under jit, vmap and scan composition.

Lift D over programs: a program is a composition (outermost first) of wrappers from
    J = eqx.filter_jit,  V = jax.vmap over a batch of 3 states,  Rn = ex.rollout(., n),  Pn = ex.repeat(., n)
applied to the stepper.  ALL valid compositions up to the depth bound are generated, executed on the real code and
compared with a reference INTERPRETER that evaluates the same program eagerly, one state at a time, with Python
loops.  Batch independence: perturbing one batch member must leave the other members' results bit-identical.
Constructor batching: eqx.filter_vmap over every float-typed constructor parameter (and dt) versus steppers built
one at a time.
"""

import itertools
import math

import numpy as np

from mc import catalog

EPS = 2.3e-16
RULE = ("one state per (stepper entry, program) and per (stepper class, batched constructor parameter); transition = one execution of the program / one batched "
        "construction + application; distinct_nontrivial = distinct observed program outputs")
ASSUMPTIONS = [
    "the reference interpreter (eager, one state at a time, Python loops over the real stepper) defines the meaning of a program",
    "tolerance 1e-10 relative: XLA may fuse and reorder floating-point operations inside jit/scan",
]
OPS = ["J", "V", "R0", "R2", "P0", "P2"]


def bounds(tier):
    return {"ops": OPS, "depth_all_entries": 2 if tier == "quick" else 3, "depth_selected_entries": 3, "batch": 3,
            "selected": ["Burgers", "KortewegDeVries", "NavierStokesVorticity", "GrayScott", "Wave", "Diffusion"]}


def valid(prog):
    """rollout/repeat need a state->state function: everything inside them must be shape preserving (no rollout inside)"""
    for i, op in enumerate(prog):
        if op[0] in "RP" and any(o[0] == "R" for o in prog[i + 1:]):
            return False
    # two identical adjacent jits are pointless but valid; keep
    return True


def programs(depth):
    """all valid compositions up to the depth bound; each also with the sub-stepping wrapper RepeatedStepper(stepper, 2) ("S2") in place of the bare
    stepper at the innermost position (a Fourier-space scan composition whose eager meaning is two applications of the stepper)"""
    out = []
    for d in range(1, depth + 1):
        for prog in itertools.product(OPS, repeat=d):
            if valid(prog):
                out.append(prog)
                if d < depth or d == 1:
                    out.append(prog + ("S2",))
    out.append(("S2",))
    return out


def units(tier, seed):
    b = bounds(tier)
    us = []
    for e in catalog.entries():
        D = e.dims[0]
        base = e.name.split("/")[0]
        depth = b["depth_selected_entries"] if e.name in b["selected"] else b["depth_all_entries"]
        us.append({"name": f"prog/{e.name}", "kind": "prog", "entry": e.name, "D": D, "depth": depth, "cost": 30 * len(programs(depth))})
    for cls in CTOR:
        us.append({"name": f"ctor/{cls}", "kind": "ctor", "cls": cls, "cost": 200})
    for w in ("RepeatedStepper", "ForcedStepper"):
        us.append({"name": f"ctorwrap/{w}", "kind": "ctorwrap", "wrapper": w, "cost": 200})
    for cls in (("Burgers",) if tier == "quick" else ("Burgers", "KortewegDeVries", "AllenCahn")):
        for first in ("J", "V", "S", "E"):
            us.append({"name": f"ctxhist/{cls}/{first}", "kind": "ctxhist", "cls": cls, "first": first, "depth": 2 if tier == "quick" else 3, "cost": 250})
    return us


# --------------------------------------------------------------------------- programs


def build_impl(prog, f):
    import equinox as eqx
    import jax

    import exponax as ex

    g = f
    if prog and prog[-1] == "S2":
        g = ex.RepeatedStepper(f, 2)
        prog = prog[:-1]
    for op in reversed(prog):
        if op == "J":
            g = eqx.filter_jit(g)
        elif op == "V":
            g = jax.vmap(g)
        elif op[0] == "R":
            g = ex.rollout(g, int(op[1:]))
        elif op[0] == "P":
            g = ex.repeat(g, int(op[1:]))
    return g


def interp(prog, f, x):
    """reference interpreter: eager, one at a time"""
    import jax.numpy as jnp

    if not prog:
        return f(x)
    if prog == ("S2",):
        return f(f(x))
    op, rest = prog[0], prog[1:]
    if op == "J":
        return interp(rest, f, x)
    if op == "V":
        return jnp.stack([interp(rest, f, x[i]) for i in range(x.shape[0])])
    n = int(op[1:])
    ys, y = [], x
    for _ in range(n):
        y = interp(rest, f, y)
        ys.append(y)
    if op[0] == "P":
        return y
    if n == 0:
        return jnp.zeros((0,) + tuple(x.shape), dtype=x.dtype)
    return jnp.stack(ys)


def unit_prog(u, rec):
    import jax.numpy as jnp

    import exponax as ex

    e = catalog.by_name()[u["entry"]]
    D = u["D"]
    N = catalog.smallest_N(e, D) + (2 if D == 1 else 0)
    L, dt = (1.0, 1.0) if e.fixed else (2.5, 0.05)
    C = e.channels(D)
    st = e.build(ex, jnp, D, N, L, dt, 0 if e.linear else 2)
    states = catalog.smooth_states(D, N, C, u["seed"], count=3, amp=e.amp)
    rec.dim("entry", e.name)
    progs = programs(u["depth"])
    rec.dim("programs", len(progs))
    for prog in progs:
        nV = sum(1 for o in prog if o == "V")
        if prog[-1] == "S2" and not hasattr(st, "step_fourier"):
            continue
        # input: one state with nV leading batch axes of size 3 (different members)
        x = np.asarray(states[0])
        for lvl in range(nV):
            x = np.stack([x * (1.0 - 0.3 * i) + 0.05 * (i + lvl) * np.asarray(states[(i + 1) % 3]) for i in range(3)])
        xj = jnp.asarray(x)
        try:
            got = np.asarray(build_impl(prog, st)(xj))
        except Exception as ex_:
            rec.count(states=1, transitions=1, traces=1)
            rec.check(False, f"C06/program_raises/{e.name}", "a valid jit/vmap/rollout/repeat composition raises", program=list(prog), error=repr(ex_)[:300])
            continue
        want = np.asarray(interp(prog, st, xj))
        rec.count(states=1, transitions=1, traces=1)
        if not rec.check(got.shape == want.shape, f"C06/program_shape/{e.name}", "program output shape differs from the eager interpretation", program=list(prog),
                         got=list(got.shape), want=list(want.shape)):
            continue
        scale = max(1.0, float(np.max(np.abs(want)))) if want.size else 1.0
        err = float(np.max(np.abs(got - want))) if want.size else 0.0
        rec.close(err, 1e-10 * scale, f"C06/program_value/{e.name}", "a jit/vmap/scan composition gives different numbers than the eager one-at-a-time evaluation",
                  program=list(prog))
        rec.outcome("prog", e.name, prog, got.shape, float(np.sum(got)) if got.size else 0.0)
        # batch independence: perturb member 0 of the outermost batch axis
        if nV >= 1 and got.size:
            ax = 0
            # the outermost V contributes the first batch axis of the INPUT; find the matching output axis: leading time axes come from R outside of it
            lead_out = sum(1 for o in prog[: prog.index("V")] if o[0] == "R")
            x2 = x.copy()
            x2[0] = x2[0] * 1.37 + 0.11
            got2 = np.asarray(build_impl(prog, st)(jnp.asarray(x2)))
            a = np.moveaxis(got, lead_out, 0)
            b2 = np.moveaxis(got2, lead_out, 0)
            rec.count(transitions=1)
            rec.check(np.array_equal(a[1:], b2[1:]), f"C06/batch_independence/{e.name}", "perturbing one batch member changes another member's result", program=list(prog))
            if a.shape[0] and float(np.max(np.abs(a[0] - b2[0]))) == 0.0 and not all(o in ("P0", "R0", "J", "V") for o in prog) and not any(o in ("P0", "R0") for o in prog):
                rec.check(False, f"C06/batch_member_ignored/{e.name}", "the perturbed member's own result did not change", program=list(prog))
    rec.sample({"entry": e.name, "D": D, "N": N, "programs": len(progs), "examples": [list(p) for p in progs[:: max(1, len(progs) // 5)][:5]]})


# --------------------------------------------------------------------------- constructor batching

def _t(*vals):
    return list(vals)


# class -> (module path, positional kind, dims, fixed kwargs, {param: (values, how to pass)})
CTOR = {
    "Advection": ("stepper", "phys", 1, {}, {"velocity": _t(0.1, 0.5, 1.0)}),
    "Diffusion": ("stepper", "phys", 1, {}, {"diffusivity": _t(0.01, 0.05, 0.2)}),
    "AdvectionDiffusion": ("stepper", "phys", 2, {}, {"velocity": _t(0.1, 0.5, 1.0), "diffusivity": _t(0.01, 0.05, 0.2)}),
    "Advection@2d": ("stepper", "phys", 2, {}, {"velocity": _t(0.1, 0.0, 1.0)}),
    "Diffusion@2d": ("stepper", "phys", 2, {}, {"diffusivity": _t(0.01, 0.05, 0.2)}),
    "Diffusion@3d": ("stepper", "phys", 3, {}, {"diffusivity": _t(0.01, 0.05, 0.2)}),
    "Dispersion@2d": ("stepper", "phys", 2, {}, {"dispersivity": _t(0.01, 0.05, 0.2)}),
    "HyperDiffusion@2d": ("stepper", "phys", 2, {}, {"hyper_diffusivity": _t(1e-4, 1e-3, 5e-3)}),
    "Burgers@2d": ("stepper", "phys", 2, {}, {"diffusivity": _t(0.01, 0.05, 0.2), "convection_scale": _t(0.5, 0.0, -1.0)}),
    "KortewegDeVries@2d": ("stepper", "phys", 2, {}, {"dispersivity": _t(0.01, 0.1, 1.0), "hyper_diffusivity": _t(0.0, 0.001, 0.01)}),
    "Dispersion": ("stepper", "phys", 1, {}, {"dispersivity": _t(0.01, 0.05, 0.2)}),
    "HyperDiffusion": ("stepper", "phys", 1, {}, {"hyper_diffusivity": _t(1e-4, 1e-3, 5e-3)}),
    "Wave": ("stepper", "phys", 1, {}, {"speed_of_sound": _t(0.5, 1.0, 2.0)}),
    "Burgers": ("stepper", "phys", 1, {}, {"diffusivity": _t(0.01, 0.05, 0.2), "convection_scale": _t(0.5, 1.0, -1.0)}),
    "KortewegDeVries": ("stepper", "phys", 1, {}, {"convection_scale": _t(-6.0, -1.0, 2.0), "diffusivity": _t(0.0, 0.01, 0.1), "dispersivity": _t(0.01, 0.1, 1.0),
                                                     "hyper_diffusivity": _t(0.0, 0.001, 0.01)}),
    "KuramotoSivashinsky": ("stepper", "phys", 1, {}, {"gradient_norm_scale": _t(0.5, 1.0, 2.0), "second_order_scale": _t(0.01, 0.05, 0.1), "fourth_order_scale": _t(1e-4, 1e-3, 2e-3)}),
    "KuramotoSivashinskyConservative": ("stepper", "phys", 1, {}, {"convection_scale": _t(0.5, 1.0, 2.0), "second_order_scale": _t(0.01, 0.05, 0.1), "fourth_order_scale": _t(1e-4, 1e-3, 2e-3)}),
    "NavierStokesVorticity": ("stepper", "phys", 2, {}, {"diffusivity": _t(0.01, 0.05, 0.1), "vorticity_convection_scale": _t(0.5, 1.0, 2.0), "drag": _t(0.0, -0.1, 0.1)}),
    "KolmogorovFlowVorticity": ("stepper", "phys", 2, {"injection_mode": 1}, {"diffusivity": _t(0.01, 0.05, 0.1), "convection_scale": _t(0.5, 1.0, 2.0), "drag": _t(0.0, -0.1, 0.1),
                                                                              "injection_scale": _t(0.0, 0.5, 1.0)}),
    "NavierStokesVelocity": ("stepper", "phys", 3, {}, {"diffusivity": _t(0.01, 0.05, 0.1), "drag": _t(0.0, -0.1, 0.1)}),
    "KolmogorovFlowVelocity": ("stepper", "phys", 3, {"injection_mode": 1}, {"diffusivity": _t(0.01, 0.05, 0.1), "drag": _t(0.0, -0.1, 0.1), "injection_scale": _t(0.0, 0.5, 1.0)}),
    "FisherKPP": ("stepper.reaction", "phys", 1, {}, {"diffusivity": _t(0.01, 0.05, 0.1), "reactivity": _t(0.5, 1.0, 2.0)}),
    "AllenCahn": ("stepper.reaction", "phys", 1, {}, {"diffusivity": _t(0.01, 0.05, 0.1), "first_order_coefficient": _t(0.5, 1.0, 2.0), "third_order_coefficient": _t(-0.5, -1.0, -2.0)}),
    "CahnHilliard": ("stepper.reaction", "phys", 1, {}, {"diffusivity": _t(0.01, 0.02, 0.05), "gamma": _t(1e-3, 2e-3, 5e-3), "first_order_coefficient": _t(-0.5, -1.0, -2.0),
                                                          "third_order_coefficient": _t(0.5, 1.0, 2.0)}),
    "GrayScott": ("stepper.reaction", "phys", 1, {}, {"diffusivity_1": _t(1e-3, 2e-3, 5e-3), "diffusivity_2": _t(5e-4, 1e-3, 2e-3), "feed_rate": _t(0.02, 0.04, 0.06), "kill_rate": _t(0.05, 0.06, 0.07)}),
    "SwiftHohenberg": ("stepper.reaction", "phys", 1, {}, {"reactivity": _t(0.3, 0.7, 1.0), "critical_number": _t(0.5, 1.0, 1.5),
                                                            "polynomial_coefficients[1]": _t(-0.2, 0.0, 0.3), "polynomial_coefficients[3]": _t(-0.5, -1.0, -2.0)}),
    "GeneralLinearStepper": ("stepper.generic", "phys", 1, {}, {"linear_coefficients[1]": _t(-0.5, 0.1, 1.0), "linear_coefficients[2]": _t(0.01, 0.05, 0.1)}),
    "GeneralConvectionStepper": ("stepper.generic", "phys", 1, {}, {"linear_coefficients[2]": _t(0.01, 0.05, 0.1), "convection_scale": _t(0.5, 1.0, -1.0)}),
    "GeneralGradientNormStepper": ("stepper.generic", "phys", 1, {}, {"linear_coefficients[2]": _t(-0.01, -0.05, 0.02), "gradient_norm_scale": _t(0.5, 1.0, 2.0)}),
    "GeneralPolynomialStepper": ("stepper.generic", "phys", 1, {}, {"linear_coefficients[0]": _t(0.1, 0.5, 1.0), "polynomial_coefficients[2]": _t(-0.5, -1.0, -2.0),
                                                                     "polynomial_coefficients[1]": _t(-0.3, 0.0, 0.4), "polynomial_coefficients[0]": _t(-0.2, 0.0, 0.1),
                                                                     "linear_coefficients[1]": _t(-0.4, 0.0, 0.3)}),
    "GeneralNonlinearStepper": ("stepper.generic", "phys", 1, {}, {"linear_coefficients[2]": _t(0.01, 0.05, 0.1), "nonlinear_coefficients[0]": _t(0.2, 0.0, -0.3), "nonlinear_coefficients[1]": _t(-1.0, 0.0, 0.5),
                                                                    "nonlinear_coefficients[2]": _t(0.3, 0.0, -0.2)}),
    "GeneralVorticityConvectionStepper": ("stepper.generic", "phys", 2, {"injection_mode": 1}, {"vorticity_convection_scale": _t(0.5, 1.0, 2.0), "linear_coefficients[2]": _t(0.001, 0.01, 0.05),
                                                                                                "injection_scale": _t(0.0, 0.5, 1.0)}),
    "NormalizedLinearStepper": ("stepper.generic", "norm", 1, {}, {"normalized_linear_coefficients[1]": _t(-0.5, -0.1, 0.2)}),
    "NormalizedConvectionStepper": ("stepper.generic", "norm", 1, {}, {"normalized_linear_coefficients[2]": _t(0.001, 0.002, 0.005), "normalized_convection_scale": _t(0.05, 0.1, 0.2)}),
    "NormalizedGradientNormStepper": ("stepper.generic", "norm", 1, {}, {"normalized_gradient_norm_scale": _t(1e-4, 5e-4, 1e-3)}),
    "NormalizedPolynomialStepper": ("stepper.generic", "norm", 1, {}, {"normalized_polynomial_coefficients[2]": _t(-0.01, -0.02, -0.05)}),
    "NormalizedNonlinearStepper": ("stepper.generic", "norm", 1, {}, {"normalized_nonlinear_coefficients[1]": _t(-0.1, -0.05, 0.05)}),
    "DifficultyLinearStepper": ("stepper.generic", "norm", 1, {}, {"linear_difficulties[1]": _t(-2.0, -0.5, 1.0)}),
    "DifficultyConvectionStepper": ("stepper.generic", "norm", 1, {}, {"linear_difficulties[2]": _t(1.0, 4.5, 8.0), "convection_difficulty": _t(1.0, 5.0, 8.0)}),
    "DifficultyGradientNormStepper": ("stepper.generic", "norm", 1, {}, {"gradient_norm_difficulty": _t(0.03, 0.064, 0.1)}),
    "DifficultyPolynomialStepper": ("stepper.generic", "norm", 1, {}, {"polynomial_difficulties[2]": _t(-0.01, -0.02, -0.05)}),
    "DifficultyNonlinearStepper": ("stepper.generic", "norm", 1, {}, {"nonlinear_difficulties[1]": _t(-4.8, -2.0, 1.0)}),
    "DifficultyLinearStepperSimple": ("stepper.generic", "norm", 1, {}, {"difficulty": _t(-2.0, -0.5, 1.0)}),
}


def unit_ctor(u, rec):
    import equinox as eqx
    import inspect

    import jax
    import jax.numpy as jnp

    import exponax as ex

    name = u["cls"]
    modpath, kind, D, fixed, params = CTOR[name]
    mod = ex
    for part in modpath.split("."):
        mod = getattr(mod, part)
    cls = getattr(mod, name.split("@")[0])
    sig = inspect.signature(cls.__init__)
    frac_half = "dealiasing_fraction" in sig.parameters and sig.parameters["dealiasing_fraction"].default == 0.5
    N = {1: 16, 2: 12, 3: 8}[D]
    L, dt = 2.5, 0.05
    C = cls(D, L, N, dt, **fixed).num_channels if kind == "phys" else cls(D, N).num_channels
    states = catalog.smooth_states(D, N, C, u["seed"], count=2, amp=0.5)
    uj = jnp.asarray(states[1])
    rec.dim("class", name)
    plist = dict(params)
    if kind == "phys":
        plist["dt"] = _t(0.01, 0.05, 0.1)
        plist["domain_extent"] = _t(1.0, 2.5, 5.0)

    def make(pname, p):
        kw = dict(fixed)
        a_L, a_dt = L, dt
        if pname == "dt":
            a_dt = p
        elif pname == "domain_extent":
            a_L = p
        elif "[" in pname:
            base, idx = pname[:-1].split("[")
            default = sig.parameters[base].default
            tup = list(default)
            while len(tup) <= int(idx):
                tup.append(0.0)
            tup[int(idx)] = p
            kw[base] = tuple(tup)
        else:
            kw[pname] = p
        if kind == "phys":
            return cls(D, a_L, N, a_dt, **kw)
        return cls(D, N, **kw)

    for pname, vals in plist.items():
        rec.dim("parameter", pname)
        rec.count(states=1, transitions=1, traces=1)
        # eager one at a time (python floats)
        try:
            ref = np.stack([np.asarray(make(pname, float(v))(uj)) for v in vals])
        except Exception as ex_:
            rec.check(False, f"C06/ctor_eager/{name}/{pname}", "eager construction with a Python float fails", error=repr(ex_)[:300])
            continue
        try:
            batch = eqx.filter_vmap(lambda p: make(pname, p))(jnp.asarray(vals))
            got = np.asarray(eqx.filter_vmap(lambda s: s(uj))(batch))
        except Exception as ex_:
            rec.check(False, f"C06/ctor_vmap/{name}/{pname}", "constructing a batch of steppers with eqx.filter_vmap over this parameter raises",
                      error=(type(ex_).__name__ + ": " + str(ex_))[:300])
            continue
        scale = max(1.0, float(np.max(np.abs(ref))))
        if rec.check(got.shape == ref.shape, f"C06/ctor_vmap_shape/{name}/{pname}", "batched construction gives another output shape", got=list(got.shape), want=list(ref.shape)):
            rec.close(float(np.max(np.abs(got - ref))), 1e-10 * scale, f"C06/ctor_vmap_value/{name}/{pname}",
                      "a batch of steppers built with eqx.filter_vmap gives different numbers than steppers built one at a time", values=vals)
            rec.check(float(np.max(np.abs(ref[0] - ref[-1]))) > 1e-9 * scale, f"C06/ctor_param_inert/{name}/{pname}", "the parameter has no influence on the step (vacuous)", values=vals)
            rec.outcome_array(got)
        # jit of a function that builds and applies
        try:
            got_j = np.asarray(eqx.filter_jit(lambda p: make(pname, p)(uj))(jnp.asarray(vals[1])))
            rec.close(float(np.max(np.abs(got_j - ref[1]))), 1e-10 * scale, f"C06/ctor_jit_value/{name}/{pname}", "building and stepping inside filter_jit differs from eager", value=vals[1])
        except Exception as ex_:
            rec.check(False, f"C06/ctor_jit/{name}/{pname}", "constructing the stepper inside eqx.filter_jit with a traced parameter raises", error=(type(ex_).__name__ + ": " + str(ex_))[:300])
    rec.sample({"class": name, "D": D, "N": N, "parameters": sorted(plist)})


def unit_ctorwrap(u, rec):
    """batches of WRAPPED steppers over a constructor parameter grid: built under filter_vmap, and assembled by stacking the array leaves of
    eagerly built wrappers; both applied with filter_vmap and compared with the one-at-a-time evaluation"""
    import equinox as eqx
    import jax
    import jax.numpy as jnp

    import exponax as ex

    w = u["wrapper"]
    N, L, dt = 16, 2.5, 0.02
    inners = {
        "Burgers": lambda p: ex.stepper.Burgers(1, L, N, dt, diffusivity=p),
        "Diffusion": lambda p: ex.stepper.Diffusion(1, L, N, dt, diffusivity=p),
        "KortewegDeVries": lambda p: ex.stepper.KortewegDeVries(1, L, N, dt, dispersivity=p),
    }
    vals = [0.02, 0.1, 0.4]
    uj = jnp.asarray(catalog.smooth_states(1, N, 1, u["seed"], count=2, amp=0.5)[1])
    fj = jnp.asarray(catalog.smooth_states(1, N, 1, u["seed"] + 5, count=2, amp=0.8)[1])
    for iname, mk in inners.items():
        for nsub in ((1, 3) if w == "RepeatedStepper" else (1,)):
            wrap = (lambda p: ex.RepeatedStepper(mk(p), nsub)) if w == "RepeatedStepper" else (lambda p: ex.ForcedStepper(mk(p)))
            apply = (lambda s: s(uj)) if w == "RepeatedStepper" else (lambda s: s(uj, fj))
            ref = np.stack([np.asarray(apply(wrap(float(v)))) for v in vals])
            scale = max(1.0, float(np.max(np.abs(ref))))
            info = dict(wrapper=w, inner=iname, num_sub_steps=nsub, values=vals)
            rec.count(states=2, transitions=2, traces=2)
            try:
                batch = eqx.filter_vmap(wrap)(jnp.asarray(vals))
                got = np.asarray(eqx.filter_vmap(apply)(batch))
                rec.close(float(np.max(np.abs(got - ref))), 1e-10 * scale, f"C06/ctorwrap_vmap_value/{w}/{iname}",
                          "a batch of wrapped steppers built with eqx.filter_vmap differs from one-at-a-time evaluation", **info)
            except Exception as ex_:
                rec.check(False, f"C06/ctorwrap_vmap/{w}/{iname}", "building / applying a batch of wrapped steppers with eqx.filter_vmap raises",
                          error=(type(ex_).__name__ + ": " + str(ex_))[:300], **info)
            try:
                eager = [wrap(float(v)) for v in vals]
                parts = [eqx.partition(s, eqx.is_array) for s in eager]
                stacked = jax.tree_util.tree_map(lambda *xs: jnp.stack(xs), *[p[0] for p in parts])
                batch2 = eqx.combine(stacked, parts[0][1])
                got2 = np.asarray(eqx.filter_vmap(apply)(batch2))
                rec.close(float(np.max(np.abs(got2 - ref))), 1e-10 * scale, f"C06/ctorwrap_stacked_value/{w}/{iname}",
                          "a batch assembled by stacking the array leaves of eagerly built wrapped steppers differs from one-at-a-time evaluation", **info)
                rec.outcome_array(got2)
            except Exception as ex_:
                rec.check(False, f"C06/ctorwrap_stacked/{w}/{iname}", "applying a batch assembled from stacked leaves raises", error=(type(ex_).__name__ + ": " + str(ex_))[:300], **info)
            rec.check(float(np.max(np.abs(ref[0] - ref[-1]))) > 1e-9, f"C06/ctorwrap_inert/{w}/{iname}", "parameter without influence (vacuous)", **info)
    rec.sample({"wrapper": w, "inners": sorted(inners), "values": vals})


def unit_ctxhist(u, rec):
    """
    Histories of construction contexts in FRESH interpreters (one child process per history): alphabet {E eager, J filter_jit, V filter_vmap,
    S lax.scan body}; ALL sequences up to the depth bound.  Oracle: every element of every history gives the numbers of the eager-only history -
    what the library computes must not depend on the context in which a class / contour size / resolution was used first in this process.
    """
    import json
    import os
    import subprocess
    import sys

    cls, depth, first = u["cls"], u["depth"], u["first"]
    here = os.path.dirname(os.path.dirname(os.path.dirname(os.path.abspath(__file__))))

    def child(seq):
        env = dict(os.environ)
        env["JAX_PLATFORMS"] = "cpu"
        p = subprocess.run([sys.executable, "-m", "mc.c06child"], input=json.dumps({"seq": list(seq), "cls": cls}), capture_output=True, text=True, env=env, cwd=here)
        if p.returncode != 0:
            raise RuntimeError(f"child session failed: {p.stderr[-1500:]}")
        return json.loads(p.stdout)["items"]

    base = child(["E"])[0]
    if not rec.check("y" in base, f"C06/ctxhist/eager_baseline/{cls}", "eager construction fails in a fresh interpreter", error=base.get("error")):
        return
    want = np.array(base["y"]).reshape(base["shape"])
    scale = max(1.0, float(np.max(np.abs(want))))
    rec.check(float(np.max(np.abs(want[0] - want[-1]))) > 1e-9, f"C06/ctxhist/param_inert/{cls}", "the constructor parameter has no influence (vacuous)")
    alphabet = ["E", "J", "V", "S"]
    n_hist = 0
    for d in range(1, depth + 1):
        for rest in itertools.product(alphabet, repeat=d - 1):
            seq = (first,) + rest
            items = child(seq)
            n_hist += 1
            rec.dim("history", "".join(seq))
            for i, it in enumerate(items):
                rec.count(states=1, transitions=1, traces=1)
                sig = f"C06/ctxhist/{cls}/{it['ctx']}_after_{''.join(seq[:i]) or 'start'}"
                if not rec.check("y" in it, sig + "/raises", "a construction context raises depending on what ran before it in the same process", history="".join(seq), index=i, error=it.get("error")):
                    continue
                got = np.array(it["y"]).reshape(it["shape"])
                if rec.check(got.shape == want.shape and it["dtype"] == base["dtype"], sig + "/shape", "shape / dtype depends on the construction context", history="".join(seq), got=it["shape"], dtype=it["dtype"]):
                    rec.close(float(np.max(np.abs(got - want))), 1e-10 * scale, sig + "/value",
                              "a stepper built under jit / vmap / scan gives other numbers than the eager one, depending on the history of contexts in this process", history="".join(seq), index=i)
            rec.outcome("".join(seq), tuple(it.get("error", "ok")[:20] for it in items))
    rec.outcome_array(want)
    rec.sample({"op": "context histories in fresh interpreters", "class": cls, "first": first, "depth": depth, "histories": n_hist, "alphabet": alphabet})


def run_unit(u, rec):
    {"prog": unit_prog, "ctor": unit_ctor, "ctorwrap": unit_ctorwrap, "ctxhist": unit_ctxhist}[u["kind"]](u, rec)

"""
C14 - rollout / repeat / stack_sub_trajectories / RepeatedStepper / ForcedStepper / build_ic_set
equal the naive Python loop.

Transition system: state = (options, i, carry) ; transition = one application of the step function
by the reference loop (plain Python, numpy). The library computes the whole history in one call
(lax.scan); every entry of what it returns is compared with the model state of the same index, i.e.
every explored trace is replayed against the implementation.  Integer bookkeeping steppers make the
comparison exact (==), real steppers are compared to 1e-12.
"""

import itertools

import numpy as np

RULE = ("full product of (n, include_init, takes_aux, constant_aux, state pytree, aux pytree) / (T, sub_len) / "
        "(inner stepper, n_sub, entry point, state); a state is (options, step index); distinct_nontrivial = distinct "
        "observed trajectories / windows / step results")
ASSUMPTIONS = [
    "integer-valued steppers exercise the same lax.scan bookkeeping as float steppers",
    "real inner steppers are compared with n explicit calls to 1e-12 relative (XLA may fuse differently inside scan)",
]


def bounds(tier):
    return {
        "n_max": 6 if tier == "quick" else 10,
        "T_max": 7 if tier == "quick" else 11,
        "n_sub": [0, 1, 2, 3, 4] if tier == "quick" else [0, 1, 2, 3, 4, 5, 7],
        "pytree_shapes": ["array", "tuple2", "dict_nested"],
    }


def units(tier, seed):
    b = bounds(tier)
    us = []
    for tree in b["pytree_shapes"]:
        us.append({"name": f"rollout/{tree}", "kind": "rollout", "tree": tree, "n_max": b["n_max"], "cost": 3})
    us.append({"name": "windows", "kind": "windows", "T_max": b["T_max"], "cost": 2})
    for fam in INNER:
        us.append({"name": f"repeated/{fam}", "kind": "repeated", "fam": fam, "n_sub": b["n_sub"], "cost": 4})
    us.append({"name": "forced_rollout", "kind": "forced", "n_max": min(b["n_max"], 6), "cost": 3})
    us.append({"name": "ic_set", "kind": "icset", "cost": 2})
    for fam in (WRAP_INNER[:4] if tier == "quick" else WRAP_INNER):
        us.append({"name": f"wrappers/{fam}", "kind": "wrappers", "fam": fam, "depth": 2 if tier == "quick" else 3, "cost": 6})
    return us


# --------------------------------------------------------------------------- helpers


def make_tree(kind, base):
    """three pytree shapes carrying integer arrays derived from `base` (np int array)"""
    if kind == "array":
        return base
    if kind == "tuple2":
        return (base, base[:2] * 2 + 1)
    if kind == "dict_nested":
        return {"a": base, "b": (base[::-1] - 3,)}
    raise ValueError(kind)


def tmap(f, *trees):
    t = trees[0]
    if isinstance(t, dict):
        return {k: tmap(f, *[x[k] for x in trees]) for k in t}
    if isinstance(t, tuple):
        return tuple(tmap(f, *xs) for xs in zip(*trees))
    return f(*trees)


def tleaves(t):
    if isinstance(t, dict):
        return [l for k in sorted(t) for l in tleaves(t[k])]
    if isinstance(t, tuple):
        return [l for x in t for l in tleaves(x)]
    return [t]


def tequal(a, b):
    la, lb = tleaves(a), tleaves(b)
    if len(la) != len(lb):
        return False
    return all(np.asarray(x).shape == np.asarray(y).shape and np.array_equal(np.asarray(x), np.asarray(y)) for x, y in zip(la, lb))


def tstruct_equal(a, b):
    if isinstance(a, dict):
        return isinstance(b, dict) and sorted(a) == sorted(b) and all(tstruct_equal(a[k], b[k]) for k in a)
    if isinstance(a, tuple):
        return isinstance(b, tuple) and len(a) == len(b) and all(tstruct_equal(x, y) for x, y in zip(a, b))
    return not isinstance(b, (dict, tuple))


def tstack(trees):
    """list of trees -> tree of stacked arrays (numpy)"""
    return tmap(lambda *xs: np.stack([np.asarray(x) for x in xs]) , *trees) if trees else None


# --------------------------------------------------------------------------- rollout / repeat


def unit_rollout(u, rec):
    import jax
    import jax.numpy as jnp

    import exponax as ex

    kind = u["tree"]
    base = np.array([1, -2, 5], dtype=np.int64)
    u0_np = make_tree(kind, base)
    to_j = lambda t: tmap(lambda x: jnp.asarray(x), t)
    u0 = to_j(u0_np)

    def step_noaux(t):
        return jax.tree_util.tree_map(lambda x: 3 * x + 1, t)

    def step_noaux_np(t):
        return tmap(lambda x: 3 * x + 1, t)

    def step_aux(t, a):
        # aux is either one array broadcast to all leaves, or a tree like the state
        if isinstance(a, (dict, tuple)):
            return jax.tree_util.tree_map(lambda x, y: 2 * x + y, t, a)
        return jax.tree_util.tree_map(lambda x: 2 * x + a, t)

    def step_aux_np(t, a):
        if isinstance(a, (dict, tuple)):
            return tmap(lambda x, y: 2 * x + y, t, a)
        return tmap(lambda x: 2 * x + a, t)

    rec.dim("tree", kind)
    for n in range(0, u["n_max"] + 1):
        rec.dim("n", n)
        for include_init in (False, True):
            # ---- no aux
            opts = dict(n=n, include_init=include_init, takes_aux=False)
            model = [u0_np]
            for i in range(n):
                model.append(step_noaux_np(model[-1]))
                rec.count(states=1, transitions=1)
            want = model if include_init else model[1:]
            got = ex.rollout(step_noaux, n, include_init=include_init)(u0)
            _compare_traj(rec, got, want, u0_np, f"C14/rollout/noaux/{kind}", opts)
            rec.count(traces=1)
            if n <= 2:
                rec.sample({"op": "rollout", **opts, "tree": kind, "expected_leaf0": [np.asarray(tleaves(w)[0]).tolist() for w in want]})
            if not include_init:
                got_r = ex.repeat(step_noaux, n)(u0)
                rec.check(tstruct_equal(got_r, u0_np) and tequal(got_r, model[-1]),
                          f"C14/repeat/noaux/{kind}", "repeat(n) differs from the n-fold manual application", n=n)
                rec.outcome_array(np.asarray(tleaves(got_r)[0]))
                rec.count(traces=1)
            # ---- aux
            for aux_kind in ("scalar", "tree"):
                for constant_aux in (True, False):
                    opts = dict(n=n, include_init=include_init, takes_aux=True, constant_aux=constant_aux, aux=aux_kind)
                    if aux_kind == "scalar":
                        aux_seq = [np.int64(7 + 2 * i) for i in range(n)]
                        aux_const = np.int64(7)
                    else:
                        aux_seq = [tmap(lambda x: x * 0 + (i + 1) * 11 + np.arange(x.shape[0]), u0_np) for i in range(n)]
                        aux_const = tmap(lambda x: x * 0 + 11 + np.arange(x.shape[0]), u0_np)
                    model = [u0_np]
                    for i in range(n):
                        a = aux_const if constant_aux else aux_seq[i]
                        model.append(step_aux_np(model[-1], a))
                        rec.count(states=1, transitions=1)
                    want = model if include_init else model[1:]
                    if constant_aux:
                        aux_in = to_j(aux_const) if aux_kind == "tree" else jnp.asarray(aux_const)
                    else:
                        if aux_kind == "scalar":
                            aux_in = jnp.asarray(np.array(aux_seq, dtype=np.int64).reshape((n,)))
                        else:
                            if n == 0:
                                aux_in = to_j(tmap(lambda x: np.zeros((0,) + x.shape, dtype=np.int64), u0_np))
                            else:
                                aux_in = to_j(tstack(aux_seq))
                    got = ex.rollout(step_aux, n, include_init=include_init, takes_aux=True, constant_aux=constant_aux)(u0, aux_in)
                    _compare_traj(rec, got, want, u0_np, f"C14/rollout/aux_{aux_kind}_{'const' if constant_aux else 'seq'}/{kind}", opts)
                    rec.count(traces=1)
                    if not include_init:
                        got_r = ex.repeat(step_aux, n, takes_aux=True, constant_aux=constant_aux)(u0, aux_in)
                        rec.check(tstruct_equal(got_r, u0_np) and tequal(got_r, model[-1]),
                                  f"C14/repeat/aux_{aux_kind}_{'const' if constant_aux else 'seq'}/{kind}",
                                  "repeat with aux differs from the manual loop", **opts)
                        rec.count(traces=1)


def _compare_traj(rec, got, want, u0_np, sig, opts):
    """got: tree of arrays with leading time axis; want: list of trees"""
    ok_struct = tstruct_equal(got, u0_np)
    rec.check(ok_struct, sig + "/structure", "pytree structure of the trajectory differs from the state's", **opts)
    if not ok_struct:
        return
    gl = [np.asarray(x) for x in tleaves(got)]
    T = len(want)
    for leaf_i, g in enumerate(gl):
        exp_shape = (T,) + np.asarray(tleaves(u0_np)[leaf_i]).shape
        if not rec.check(g.shape == exp_shape, sig + "/length", "trajectory has the wrong number of entries / shape",
                         got=list(g.shape), want=list(exp_shape), **opts):
            return
    for i, w in enumerate(want):
        wl = tleaves(w)
        for leaf_i, g in enumerate(gl):
            rec.check(np.array_equal(g[i], np.asarray(wl[leaf_i])), sig + "/entry",
                      "trajectory entry differs from the manual application", index=i, leaf=leaf_i,
                      got=g[i], want=np.asarray(wl[leaf_i]), **opts)
    if gl and gl[0].size:
        rec.outcome_array(gl[0])
    else:
        rec.outcome("empty", sig)


# --------------------------------------------------------------------------- windows


def unit_windows(u, rec):
    import jax.numpy as jnp

    import exponax as ex

    for T in range(1, u["T_max"] + 1):
        rec.dim("T", T)
        for kind in ("array", "tuple2", "dict_nested"):
            base = (np.arange(T * 3, dtype=np.int64).reshape(T, 3) * 7) % 23
            if kind == "array":
                trj = base
            elif kind == "tuple2":
                trj = (base, base[:, :2] + 100)
            else:
                trj = {"a": base, "b": (base[:, ::-1] * 2,)}
            trj_j = tmap(lambda x: jnp.asarray(x), trj)
            for sub_len in range(1, T + 1):
                want = [tmap(lambda x: x[i:i + sub_len], trj) for i in range(T - sub_len + 1)]
                rec.count(states=len(want), transitions=len(want), traces=1)
                got = ex.stack_sub_trajectories(trj_j, sub_len)
                ok = tstruct_equal(got, trj)
                if rec.check(ok, "C14/windows/structure", "window stack has a different pytree structure", T=T, sub_len=sub_len):
                    gl = [np.asarray(x) for x in tleaves(got)]
                    wl = tleaves(tstack(want))
                    for g, w in zip(gl, wl):
                        rec.check(g.shape == w.shape and np.array_equal(g, w), f"C14/windows/content/{kind}",
                                  "windows differ from the contiguous slices in order", T=T, sub_len=sub_len, got=g, want=w)
                    rec.outcome_array(gl[0])
                if T <= 2:
                    rec.sample({"op": "stack_sub_trajectories", "T": T, "sub_len": sub_len, "tree": kind})
            # sub_len > T must be rejected
            for sub_len in (T + 1, T + 3):
                try:
                    ex.stack_sub_trajectories(trj_j, sub_len)
                    rec.check(False, "C14/windows/too_long_accepted", "sub_len > T was accepted", T=T, sub_len=sub_len)
                except ValueError:
                    rec.check(True, "", "")
                rec.count(transitions=1)
        # ragged leaves must be rejected
        if T >= 2:
            rag = (jnp.zeros((T, 2)), jnp.zeros((T - 1, 2)))
            try:
                ex.stack_sub_trajectories(rag, 1)
                rec.check(False, "C14/windows/ragged_accepted", "leaves with different lengths were accepted", T=T)
            except ValueError:
                rec.check(True, "", "")
            rec.count(transitions=1)


# --------------------------------------------------------------------------- RepeatedStepper

INNER = ["diffusion1d", "diffusion2d_even", "advection1d_even", "advection1d_odd", "dispersion2d_even", "wave1d", "burgers1d", "burgers2d", "kdv1d_even",
         "ks1d", "nsvort2d", "fisher1d", "grayscott1d", "generalconv1d", "nsvel3d", "hyperdiffusion3d_even"]
# inner steppers without odd-order linear terms: the sub-stepping must equal n applications for EVERY state (Nyquist content included)
EVEN_ORDER = {"diffusion1d", "diffusion2d_even", "burgers1d", "burgers2d", "ks1d", "nsvort2d", "fisher1d", "grayscott1d", "nsvel3d", "hyperdiffusion3d_even"}


def make_inner(fam, order=2):
    import jax.numpy as jnp

    import exponax as ex

    if fam == "diffusion1d":
        return ex.stepper.Diffusion(1, 2.0, 12, 0.1, diffusivity=0.03)
    if fam == "diffusion2d_even":
        return ex.stepper.Diffusion(2, 2.0, 8, 0.1, diffusivity=0.03)
    if fam == "hyperdiffusion3d_even":
        return ex.stepper.HyperDiffusion(3, 2.0, 6, 0.1, hyper_diffusivity=1e-3)
    if fam == "advection1d_even":
        return ex.stepper.Advection(1, 3.0, 12, 0.07, velocity=0.9)
    if fam == "advection1d_odd":
        return ex.stepper.Advection(1, 3.0, 11, 0.07, velocity=0.9)
    if fam == "dispersion2d_even":
        return ex.stepper.Dispersion(2, 3.0, 8, 0.02, dispersivity=jnp.array([0.3, -0.2]))
    if fam == "wave1d":
        return ex.stepper.Wave(1, 2.0, 12, 0.05, speed_of_sound=1.3)
    if fam == "burgers1d":
        return ex.stepper.Burgers(1, 2.0, 16, 0.01, diffusivity=0.05, order=order)
    if fam == "burgers2d":
        return ex.stepper.Burgers(2, 2.0, 10, 0.01, diffusivity=0.05, order=order)
    if fam == "kdv1d_even":
        return ex.stepper.KortewegDeVries(1, 10.0, 16, 0.001, order=order)
    if fam == "ks1d":
        return ex.stepper.KuramotoSivashinsky(1, 20.0, 16, 0.01, order=order)
    if fam == "nsvort2d":
        return ex.stepper.NavierStokesVorticity(2, 2.0, 10, 0.01, diffusivity=0.02, order=order)
    if fam == "fisher1d":
        return ex.stepper.reaction.FisherKPP(1, 2.0, 16, 0.01, order=order)
    if fam == "grayscott1d":
        return ex.stepper.reaction.GrayScott(1, 2.0, 16, 0.5, order=order)
    if fam == "generalconv1d":
        return ex.stepper.generic.GeneralConvectionStepper(1, 3.0, 16, 0.01, linear_coefficients=(0.0, -0.3, 0.02, 0.01), order=order)
    if fam == "nsvel3d":
        return ex.stepper.NavierStokesVelocity(3, 2.0, 8, 0.01, diffusivity=0.02, order=order)
    raise ValueError(fam)


def nyquist_free_states(D, N, C, seed, count=3):
    """real states with content only in |k_d| <= kmax < N/2 : deterministic superpositions"""
    rng = np.random.RandomState(1000 + seed)
    kmax = max(1, min(2, (N - 1) // 2 - 1))
    xs = np.arange(N) / N
    grids = np.meshgrid(*([xs] * D), indexing="ij")
    out = []
    for s in range(count):
        u = np.zeros((C,) + (N,) * D)
        for c in range(C):
            for k in itertools.product(range(-kmax, kmax + 1), repeat=D):
                a, p = rng.uniform(-1, 1), rng.uniform(0, 2 * np.pi)
                if s == 0 and sum(abs(x) for x in k) > 1:
                    continue
                u[c] += 0.3 * a * np.cos(2 * np.pi * sum(ki * g for ki, g in zip(k, grids)) + p)
        out.append(u)
    return out


def unit_repeated(u, rec):
    import jax.numpy as jnp

    import exponax as ex

    fam = u["fam"]
    orders = [2] if fam in ("diffusion1d", "diffusion2d_even", "hyperdiffusion3d_even", "advection1d_even", "advection1d_odd", "dispersion2d_even", "wave1d") else [1, 2, 4]
    for order in orders:
        inner = make_inner(fam, order)
        D, N, C = inner.num_spatial_dims, inner.num_points, inner.num_channels
        states = nyquist_free_states(D, N, C, u["seed"])
        if fam in EVEN_ORDER:
            # white-noise-like ternary states (content up to and on the Nyquist lines)
            n_ = C * N**D
            states = states + [0.3 * (np.mod(np.arange(n_) * 7 + (np.arange(n_) // 3) * 5 + t, 3) - 1.0).reshape((C,) + (N,) * D) for t in (0, 1)]
        rec.dim("inner", fam)
        rec.dim("order", order)
        for n_sub in u["n_sub"]:
            rec.dim("n_sub", n_sub)
            rs = ex.RepeatedStepper(inner, n_sub)
            # attribute bookkeeping
            rec.check(abs(float(rs.dt) - n_sub * float(inner.dt)) <= 1e-15 * max(n_sub, 1), f"C14/repeated/attr/dt", "effective dt is not n*dt",
                      fam=fam, n_sub=n_sub, got=float(rs.dt))
            rec.check((rs.num_spatial_dims, rs.num_points, rs.num_channels, float(rs.domain_extent), float(rs.dx)) ==
                      (D, N, C, float(inner.domain_extent), float(inner.dx)), "C14/repeated/attr/shape",
                      "RepeatedStepper does not mirror the inner stepper's configuration", fam=fam)
            for si, s in enumerate(states):
                sj = jnp.asarray(s)
                model = sj
                model_hat = ex.fft(sj, num_spatial_dims=D)
                for i in range(n_sub):
                    model = inner(model)
                    model_hat = inner.step_fourier(model_hat)
                    rec.count(states=1, transitions=1)
                model = np.asarray(model)
                scale = max(1.0, float(np.max(np.abs(model))))
                for entry in ("__call__", "step", "step_fourier"):
                    if entry == "__call__":
                        got = np.asarray(rs(sj))
                        err = np.max(np.abs(got - model))
                    elif entry == "step":
                        got = np.asarray(rs.step(sj))
                        err = np.max(np.abs(got - model))
                    else:
                        got = np.asarray(rs.step_fourier(ex.fft(sj, num_spatial_dims=D)))
                        err = np.max(np.abs(got - np.asarray(model_hat))) / (N ** D)
                    rec.close(err, 1e-11 * scale * max(n_sub, 1), f"C14/repeated/{entry}/{fam}",
                              "RepeatedStepper differs from n applications of the inner stepper",
                              order=order, n_sub=n_sub, state=si)
                    rec.count(traces=1)
                rec.outcome_array(got)
            rec.sample({"op": "RepeatedStepper", "inner": fam, "order": order, "n_sub": n_sub, "states": len(states)})


# --------------------------------------------------------------------------- ForcedStepper inside rollout


def unit_forced(u, rec):
    import jax.numpy as jnp

    import exponax as ex

    for fam in ("diffusion1d", "burgers1d", "nsvort2d"):
        inner = make_inner(fam, 2)
        D, N, C = inner.num_spatial_dims, inner.num_points, inner.num_channels
        fs = ex.ForcedStepper(inner)
        states = nyquist_free_states(D, N, C, u["seed"], count=2)
        forc = nyquist_free_states(D, N, C, u["seed"] + 17, count=u["n_max"])
        for n in range(0, u["n_max"] + 1):
            for constant in (True, False):
                for si, s in enumerate(states):
                    cur = jnp.asarray(s)
                    want = []
                    for i in range(n):
                        f = forc[0] if constant else forc[i]
                        cur = inner(cur + inner.dt * jnp.asarray(f))
                        want.append(np.asarray(cur))
                        rec.count(states=1, transitions=1)
                    aux = jnp.asarray(forc[0]) if constant else jnp.asarray(np.stack(forc[:n]) if n else np.zeros((0, C) + (N,) * D))
                    got = np.asarray(ex.rollout(fs, n, takes_aux=True, constant_aux=constant)(jnp.asarray(s), aux))
                    rec.count(traces=1)
                    if not rec.check(got.shape == (n, C) + (N,) * D, "C14/forced_rollout/shape", "wrong trajectory shape", n=n, got=list(got.shape)):
                        continue
                    for i in range(n):
                        rec.close(np.max(np.abs(got[i] - want[i])), 1e-11 * max(1, np.max(np.abs(want[i]))) * (i + 1),
                                  f"C14/forced_rollout/entry/{fam}", "forced rollout differs from the manual loop with per-step forcing",
                                  n=n, index=i, constant=constant)
                    if n:
                        rec.outcome_array(got)
                    # the same trajectory through the Fourier-space entry point of the wrapper (state and forcing as coefficients)
                    s_hat = ex.fft(jnp.asarray(s), num_spatial_dims=D)
                    aux_hat = ex.fft(aux, num_spatial_dims=D)
                    got_hat = ex.rollout(fs.step_fourier, n, takes_aux=True, constant_aux=constant)(s_hat, aux_hat)
                    rec.count(traces=1)
                    if not rec.check(tuple(got_hat.shape) == (n, C) + tuple(s_hat.shape[1:]), "C14/forced_rollout_fourier/shape", "wrong trajectory shape", n=n, got=list(got_hat.shape)):
                        continue
                    got_f = np.asarray(ex.ifft(got_hat, num_spatial_dims=D, num_points=N)) if n else np.zeros((0, C) + (N,) * D)
                    for i in range(n):
                        rec.close(np.max(np.abs(got_f[i] - want[i])), 1e-11 * max(1, np.max(np.abs(want[i]))) * (i + 1),
                                  f"C14/forced_rollout_fourier/entry/{fam}", "rollout over ForcedStepper.step_fourier differs from the manual loop inner(u + dt f)",
                                  n=n, index=i, constant=constant)
        rec.sample({"op": "rollout(ForcedStepper) and rollout(ForcedStepper.step_fourier)", "inner": fam, "n_max": u["n_max"]})


# --------------------------------------------------------------------------- wrappers around wrappers (BFS over wrapper histories)

WRAP_INNER = ["burgers1d", "wave1d", "kdv1d_even", "nsvort2d", "diffusion2d_even", "advection1d_odd"]


def unit_wrappers(u, rec):
    """
    Explicit-state BFS over histories of wrapper constructions around one real inner stepper.  Alphabet (simplest first): R1, R2, R3, R0 =
    RepeatedStepper(current, n) and F = ForcedStepper(current) (terminal: a forced stepper takes two arguments and cannot be repeated).  The model
    state is (m, forced) with m the total number of inner applications; it is the BFS key, so R2.R3 and R3.R2 merge (diamond check on the real
    outputs).  Invariant in every state: every entry point of the real wrapped object equals the naive loop of m inner calls (forced: applied to
    u + dt_eff f with dt_eff = m dt), and the advertised dt is m dt.
    """
    import jax.numpy as jnp

    import exponax as ex

    from ..core import bfs

    fam = u["fam"]
    inner = make_inner(fam, 2)
    D, N, C = inner.num_spatial_dims, inner.num_points, inner.num_channels
    states = nyquist_free_states(D, N, C, u["seed"], count=2)[1:]
    if fam in EVEN_ORDER:
        n_ = C * N**D
        states = states + [0.3 * (np.mod(np.arange(n_) * 7 + (np.arange(n_) // 3) * 5, 3) - 1.0).reshape((C,) + (N,) * D)]
    forcing = nyquist_free_states(D, N, C, u["seed"] + 29, count=1)[0]
    m_cap = 12 if fam in ("nsvort2d", "diffusion2d_even") else 27
    loops = {}

    def naive(si, m, start):
        """m-fold application of the inner stepper's __call__ to `start` (memoised on (si, m) for the unforced chains)"""
        cur = jnp.asarray(start)
        for _ in range(m):
            cur = inner(cur)
            rec.count(states=1, transitions=1)
        return np.asarray(cur)

    def outputs(obj, forced):
        outs = []
        for s in states:
            sj = jnp.asarray(s)
            if forced:
                fj = jnp.asarray(forcing)
                outs.append((np.asarray(obj(sj, fj)), np.asarray(obj.step(sj, fj)),
                             np.asarray(ex.ifft(obj.step_fourier(ex.fft(sj, num_spatial_dims=D), ex.fft(fj, num_spatial_dims=D)), num_spatial_dims=D, num_points=N))))
            else:
                outs.append((np.asarray(obj(sj)), np.asarray(obj.step(sj)),
                             np.asarray(ex.ifft(obj.step_fourier(ex.fft(sj, num_spatial_dims=D)), num_spatial_dims=D, num_points=N))))
        return outs

    def step(op, key, iv, mv):
        m, forced = mv
        if forced:
            return None
        obj = iv[0]
        if op == "F":
            new, nm, nf = ex.ForcedStepper(obj), m, True
        else:
            n = int(op[1:])
            if m * n > m_cap:
                return None
            new, nm, nf = ex.RepeatedStepper(obj, n), m * n, False
        return (nm, nf), (new, outputs(new, nf)), (nm, nf)

    def invariant(key, iv, mv, trace):
        m, forced = mv
        obj, outs = iv
        rec.dim("wrapper_history", "/".join(trace) if trace else "-")
        if not forced:
            rec.close(abs(float(obj.dt) - m * float(inner.dt)), 1e-14 * max(m, 1), f"C14/wrappers/attr/dt/{fam}", "advertised dt of the wrapped stepper is not (product of sub-step counts) * dt",
                      trace=list(trace), got=float(obj.dt), want=m * float(inner.dt))
        for si, s in enumerate(states):
            kk = (si, m, forced)
            if kk not in loops:
                start = s + m * float(inner.dt) * forcing if forced else s
                loops[kk] = naive(si, m, start)
            want = loops[kk]
            scale = max(1.0, float(np.max(np.abs(want))))
            for entry, got in zip(("__call__", "step", "step_fourier"), outs[si]):
                if not rec.check(got.shape == want.shape, f"C14/wrappers/shape/{fam}", "wrapped stepper changes the shape", trace=list(trace), entry=entry):
                    continue
                rec.close(float(np.max(np.abs(got - want))), 1e-11 * scale * max(m, 1), f"C14/wrappers/{entry}/{fam}",
                          "nested wrapper differs from the naive loop of inner applications" + (" on u + dt_eff*f" if forced else ""),
                          trace=list(trace), m=m, forced=forced, state=si)
                rec.count(traces=1)
            rec.outcome_array(outs[si][0])

    def same(a, b):
        return all(float(np.max(np.abs(x[0] - y[0]))) <= 1e-10 * max(1.0, float(np.max(np.abs(x[0])))) for x, y in zip(a[1], b[1]))

    nstates, maxdepth = bfs(rec, [((1, False), (inner, outputs(inner, False)), (1, False))], ["R1", "R2", "R3", "R0", "F"], step, invariant,
                            depth=u["depth"], same=same, label=f"C14/wrappers/{fam}")
    rec.sample({"op": "BFS over wrapper histories {R0,R1,R2,R3,F}", "inner": fam, "depth": u["depth"], "model_states": nstates, "max_depth": maxdepth, "m_cap": m_cap})


# --------------------------------------------------------------------------- build_ic_set


def unit_icset(u, rec):
    import jax
    import jax.numpy as jnp

    import exponax as ex

    gens = [
        ("tfs1d", ex.ic.RandomTruncatedFourierSeries(1, cutoff=3), 12),
        ("grf2d", ex.ic.GaussianRandomField(2), 8),
        ("blobs1d", ex.ic.RandomGaussianBlobs(1), 10),
    ]
    for name, gen, N in gens:
        for S in (0, 1, 2, 5):
            for kseed in (0, 3, u["seed"] + 11):
                key = jax.random.PRNGKey(kseed)
                k = key
                want = []
                for i in range(S):
                    k, sub = jax.random.split(k)
                    want.append(np.asarray(gen(N, key=sub)))
                    rec.count(states=1, transitions=1)
                got = np.asarray(ex.build_ic_set(gen, num_points=N, num_samples=S, key=key))
                rec.count(traces=1)
                if not rec.check(got.shape[0] == S, "C14/ic_set/count", "wrong number of samples", S=S, got=list(got.shape)):
                    continue
                for i in range(S):
                    rec.close(np.max(np.abs(got[i] - want[i])), 1e-12 * max(1.0, np.max(np.abs(want[i]))), f"C14/ic_set/entry/{name}",
                              "build_ic_set sample differs from the explicit key-splitting loop", S=S, index=i, key=kseed)
                if S:
                    rec.outcome_array(got)
                    if S >= 2:
                        rec.check(np.max(np.abs(got[0] - got[1])) > 1e-6, f"C14/ic_set/distinct/{name}", "two samples of one set are identical", S=S)
        rec.sample({"op": "build_ic_set", "gen": name, "N": N, "S": [0, 1, 2, 5]})


def run_unit(u, rec):
    {"rollout": unit_rollout, "windows": unit_windows, "repeated": unit_repeated, "forced": unit_forced, "icset": unit_icset, "wrappers": unit_wrappers}[u["kind"]](u, rec)

"""
C07 - steppers are differentiable with correct derivatives.

The derivative at a base point is LINEAR in the tangent (lift L in the tangent space): the harness computes the
FULL Jacobian by forward mode (all basis tangents) and by reverse mode (all basis cotangents), compares them
entrywise - which is the adjoint identity <w, J v> = <J^T w, v> for every (tangent, cotangent) pair - and
compares every column with a central finite difference whose tolerance comes from a Richardson pair.
Base points: zero and constant states (where guarded divisions bite), single modes, superpositions, ternary
patterns.  Every float-typed constructor parameter (and dt) is differentiated THROUGH the constructor by jvp and
by reverse mode and compared with central differences.  Rollouts of length 1..3.  Linear steppers: the Jacobian
is the map itself (J e = S(e) for every grid delta e).
"""

import inspect
import math

import numpy as np

from mc import catalog, ref
from mc.props.C06 import CTOR

EPS = 2.3e-16
RULE = ("one state per (stepper entry, order, D, N, base point) with its full Jacobian (n^2 entries, forward, reverse and finite differences), per (class, "
        "parameter) and per (entry, rollout length); transition = one jacfwd / jacrev / batched finite-difference evaluation; distinct_nontrivial = distinct Jacobians")
ASSUMPTIONS = [
    "finite differences: central, h = 1e-5; the tolerance is 20x the Richardson estimate |FD(h) - FD(h/2)| + 1e-7*scale",
    "derivatives with respect to domain_extent are not part of the property (state, dt and PDE coefficients are)",
]


def bounds(tier):
    return {"orders": [0, 2, 4] if tier == "quick" else [0, 1, 2, 3, 4], "N": {1: 8, 2: 6, 3: 6}, "N_cubic": {1: 10, 2: 8, 3: 8}, "rollout": [1, 2, 3],
            "base_points": ["zero", "constant", "single_mode", "superposition", "ternary"]}


def units(tier, seed):
    b = bounds(tier)
    us = []
    for e in catalog.entries():
        for D in e.dims:
            if D == 3 and e.name.split("/")[0] not in ("NavierStokesVelocity", "KolmogorovFlowVelocity"):
                continue
            if tier == "quick" and D == 2 and 1 in e.dims and e.name.split("/")[0] not in ("Burgers", "Diffusion", "Wave", "KuramotoSivashinsky", "GrayScott", "KortewegDeVries"):
                continue
            N = b["N_cubic"][D] if e.frac < 0.6 else b["N"][D]
            quick3d = tier == "quick" and D == 3
            us.append({"name": f"jac/{e.name}/D{D}", "kind": "jac", "entry": e.name, "D": D, "N": N, "orders": [2] if quick3d else b["orders"],
                       "rollout": [2] if quick3d else b["rollout"], "bases": ["zero", "constant", "superposition"] if quick3d else b["base_points"], "cost": (N**D) ** 2 * 5})
    for cls in CTOR:
        us.append({"name": f"param/{cls}", "kind": "param", "cls": cls, "orders": [2] if tier == "quick" else [2, 4],
                   "bases": ["superposition", "zero"] if tier == "quick" else ["superposition", "zero", "constant"], "cost": 3000})
    return us


def base_points(D, N, C, seed, amp):
    X = ref.grid(D, N, 1.0)
    pts = {}
    pts["zero"] = np.zeros((C,) + (N,) * D)
    pts["constant"] = np.stack([np.full((N,) * D, 0.7 - 0.4 * c) for c in range(C)])
    pts["single_mode"] = np.stack([amp * np.cos(2 * np.pi * X[(c) % D] + 0.3 * c) for c in range(C)])
    pts["superposition"] = catalog.smooth_states(D, N, C, seed, count=2, amp=amp)[1]
    pts["ternary"] = (np.mod(np.arange(C * N**D) * 7 + (np.arange(C * N**D) // 3) * 5 + seed, 3) - 1.0).reshape((C,) + (N,) * D) * 0.3
    return pts


def unit_jac(u, rec):
    import jax
    import jax.numpy as jnp

    import exponax as ex

    e = catalog.by_name()[u["entry"]]
    D, N = u["D"], u["N"]
    C = e.channels(D)
    L, dt = (1.0, 1.0) if e.fixed else (2.5, 0.05)
    n = C * N**D
    shape = (C,) + (N,) * D
    allpts = base_points(D, N, C, u["seed"], e.amp)
    pts = {k: v for k, v in allpts.items() if k in u["bases"]}
    rec.dim("entry", e.name)
    rec.dim("D", D)
    orders = (0,) if e.linear else tuple(o for o in u["orders"])
    h = 1e-5
    eye = np.eye(n).reshape((n,) + shape)
    for order in orders:
        rec.dim("order", order)
        st = e.build(ex, jnp, D, N, L, dt, order)
        f = lambda x: st(x.reshape(shape)).reshape(-1)
        jf = jax.jit(jax.jacfwd(f))
        jr = jax.jit(jax.jacrev(f))
        fb = jax.jit(jax.vmap(f))
        for pname, p in pts.items():
            x0 = jnp.asarray(p.reshape(-1))
            y0 = np.asarray(f(x0))
            info = dict(D=D, N=N, order=order, base=pname)
            rec.count(states=1, transitions=3, traces=1)
            if not np.all(np.isfinite(y0)):
                rec.notes.append(f"{e.name} D={D} order={order} base={pname}: primal not finite, skipped")
                continue
            JF, JR = np.asarray(jf(x0)), np.asarray(jr(x0))
            if not rec.check(bool(np.all(np.isfinite(JF))), f"C07/finite/forward/{e.name}", "forward-mode derivative is not finite where the step is finite", **info):
                continue
            if not rec.check(bool(np.all(np.isfinite(JR))), f"C07/finite/reverse/{e.name}", "reverse-mode derivative is not finite where the step is finite", **info):
                continue
            scale = max(1.0, float(np.max(np.abs(JF))))
            ij = np.unravel_index(np.argmax(np.abs(JF - JR)), JF.shape)
            rec.close(float(np.max(np.abs(JF - JR))), 1e-10 * scale, f"C07/adjoint/{e.name}", "reverse mode is not the adjoint of forward mode (jacrev != jacfwd)",
                      entry=[int(ij[0]), int(ij[1])], **info)
            # central finite differences for ALL basis tangents, two step sizes (Richardson)
            xp = np.asarray(x0)[None, :]
            E = np.eye(n)
            fd1 = (np.asarray(fb(jnp.asarray(xp + h * E))) - np.asarray(fb(jnp.asarray(xp - h * E)))) / (2 * h)
            fd2 = (np.asarray(fb(jnp.asarray(xp + 0.5 * h * E))) - np.asarray(fb(jnp.asarray(xp - 0.5 * h * E)))) / h
            rec.count(transitions=4 * n)
            rich = np.max(np.abs(fd1 - fd2))
            tol = 20 * rich + 1e-7 * scale
            err = np.abs(fd2.T - JF)
            ij = np.unravel_index(np.argmax(err), err.shape)
            rec.close(float(err[ij]), tol, f"C07/finite_difference/{e.name}", "forward-mode derivative disagrees with central finite differences",
                      entry=[int(ij[0]), int(ij[1])], jac=float(JF[ij]), fd=float(fd2.T[ij]), **info)
            if e.linear:
                # the Jacobian of a linear stepper is the map itself: column j = S(delta_j)
                cols = np.asarray(fb(jnp.asarray(E))).T
                rec.close(float(np.max(np.abs(cols - JF))), 1e-10 * scale, f"C07/linear_is_own_jacobian/{e.name}", "the Jacobian of a linear stepper is not the map itself", **info)
            rec.outcome_array(JF.ravel()[:: max(1, JF.size // 32)])
        # rollouts (order fixed by the loop): full Jacobian of rollout(st, n) at the superposition point, forward vs reverse vs FD on 4 tangents
        if order == orders[-1]:
            for nroll in u["rollout"]:
                g = lambda x, nroll=nroll: ex.rollout(st, nroll)(x.reshape(shape)).reshape(-1)
                x0 = jnp.asarray(pts["superposition"].reshape(-1))
                yr = np.asarray(g(x0))
                rec.count(states=1, transitions=3, traces=1)
                if not np.all(np.isfinite(yr)):
                    continue
                JFr, JRr = np.asarray(jax.jacfwd(g)(x0)), np.asarray(jax.jacrev(g)(x0))
                info = dict(D=D, N=N, order=order, rollout=nroll)
                fin = rec.check(bool(np.all(np.isfinite(JFr)) and np.all(np.isfinite(JRr))), f"C07/finite/rollout/{e.name}", "derivative through a rollout is not finite", **info)
                if not fin:
                    continue
                sc = max(1.0, float(np.max(np.abs(JFr))))
                rec.close(float(np.max(np.abs(JFr - JRr))), 1e-10 * sc * nroll, f"C07/adjoint_rollout/{e.name}", "reverse mode through a rollout is not the adjoint of forward mode", **info)
                vs = np.stack([np.asarray(allpts["single_mode"].reshape(-1)), np.asarray(allpts["ternary"].reshape(-1)), np.eye(n)[0], np.eye(n)[n // 2]])
                gb = jax.vmap(g)
                f1 = (np.asarray(gb(jnp.asarray(np.asarray(x0)[None] + h * vs))) - np.asarray(gb(jnp.asarray(np.asarray(x0)[None] - h * vs)))) / (2 * h)
                f2 = (np.asarray(gb(jnp.asarray(np.asarray(x0)[None] + 0.5 * h * vs))) - np.asarray(gb(jnp.asarray(np.asarray(x0)[None] - 0.5 * h * vs)))) / h
                want = vs @ JFr.T
                rec.close(float(np.max(np.abs(f2 - want))), 20 * float(np.max(np.abs(f1 - f2))) + 1e-7 * sc * float(np.max(np.abs(vs))) * n**0.5,
                          f"C07/finite_difference_rollout/{e.name}", "derivative through a rollout disagrees with central finite differences", **info)
    rec.sample({"entry": e.name, "D": D, "N": N, "jacobian": [n, n], "orders": list(orders), "base_points": sorted(pts), "rollouts": u["rollout"]})


def unit_param(u, rec):
    import jax
    import jax.numpy as jnp

    import exponax as ex

    name = u["cls"]
    modpath, kind, D, fixed, params = CTOR[name]
    mod = ex
    for part in modpath.split("."):
        mod = getattr(mod, part)
    cls = getattr(mod, name.split("@")[0])
    sig = inspect.signature(cls.__init__)
    N = {1: 12, 2: 8, 3: 6}[D]
    L, dt = 2.5, 0.05
    C = cls(D, L, N, dt, **fixed).num_channels if kind == "phys" else cls(D, N).num_channels
    states = catalog.smooth_states(D, N, C, u["seed"], count=2, amp=0.5)
    pts = {"superposition": jnp.asarray(states[1]), "zero": jnp.zeros((C,) + (N,) * D), "constant": jnp.full((C,) + (N,) * D, 0.6)}
    pts = {k: v for k, v in pts.items() if k in u["bases"]}
    plist = dict(params)
    if kind == "phys":
        plist["dt"] = [0.01, 0.05, 0.1]
    has_order = "order" in sig.parameters
    rec.dim("class", name)

    def make(pname, p, order):
        kw = dict(fixed)
        if has_order:
            kw["order"] = order
        a_dt = dt
        if pname == "dt":
            a_dt = p
        elif "[" in pname:
            base, idx = pname[:-1].split("[")
            tup = list(sig.parameters[base].default)
            while len(tup) <= int(idx):
                tup.append(0.0)
            tup[int(idx)] = p
            kw[base] = tuple(tup)
        else:
            kw[pname] = p
        if kind == "phys":
            return cls(D, L, N, a_dt, **kw)
        return cls(D, N, **kw)

    rng = np.random.RandomState(5 + u["seed"])
    for pname, vals in plist.items():
        rec.dim("parameter", pname)
        # differentiate at the middle value, and at exactly 0 where zero is in the lattice (statically skipped zero terms must still be differentiable)
        p0s = sorted({float(vals[1])} | ({0.0} if 0.0 in [float(v) for v in vals] else set()))
        full = [(a, b, True) for a in p0s for b in (tuple(u["orders"]) if has_order else (0,))]
        # every other order 0-4: forward/reverse finiteness and adjointness (no finite differences) at the first base point
        light = [(p0s[0], b, False) for b in ((0, 1, 2, 3, 4) if has_order else ()) if b not in u["orders"]]
        for p0, order, with_fd in full + light:
            for bname, x in (pts.items() if with_fd else list(pts.items())[:1]):
                info = dict(parameter=pname, p0=p0, order=order, base=bname)
                F = lambda p: make(pname, p, order)(x)
                rec.count(states=1, transitions=4, traces=1)
                try:
                    y, dy = jax.jvp(F, (jnp.asarray(p0),), (jnp.asarray(1.0),))
                except Exception as ex_:
                    rec.check(False, f"C07/param_jvp_raises/{name}/{pname}", "forward-mode differentiation through the constructor raises",
                              error=(type(ex_).__name__ + ": " + str(ex_))[:300], **info)
                    continue
                y, dy = np.asarray(y), np.asarray(dy)
                if not np.all(np.isfinite(y)):
                    continue
                if not rec.check(bool(np.all(np.isfinite(dy))), f"C07/param_finite/{name}/{pname}", "derivative w.r.t. a PDE coefficient is not finite where the step is finite", **info):
                    continue
                sc = max(1.0, float(np.max(np.abs(dy))))
                if with_fd:
                    hh = 1e-5 * max(1.0, abs(p0))
                    fd1 = (np.asarray(F(p0 + hh)) - np.asarray(F(p0 - hh))) / (2 * hh)
                    fd2 = (np.asarray(F(p0 + hh / 2)) - np.asarray(F(p0 - hh / 2))) / hh
                    rec.close(float(np.max(np.abs(dy - fd2))), 20 * float(np.max(np.abs(fd1 - fd2))) + 1e-7 * sc, f"C07/param_finite_difference/{name}/{pname}",
                              "derivative w.r.t. a PDE coefficient / dt disagrees with central finite differences", **info)
                # reverse mode: d/dp <w, F(p)> == <w, dF/dp>
                w = rng.uniform(-1, 1, size=y.shape)
                try:
                    g = float(jax.grad(lambda p: jnp.sum(jnp.asarray(w) * F(p)))(jnp.asarray(p0)))
                    rec.close(abs(g - float(np.sum(w * dy))), 1e-9 * sc * y.size**0.5 + 1e-12, f"C07/param_adjoint/{name}/{pname}",
                              "reverse-mode derivative w.r.t. a PDE coefficient is not the adjoint of forward mode", got=g, want=float(np.sum(w * dy)), **info)
                    rec.check(math.isfinite(g), f"C07/param_finite_reverse/{name}/{pname}", "reverse-mode derivative w.r.t. a PDE coefficient is not finite", **info)
                except Exception as ex_:
                    rec.check(False, f"C07/param_grad_raises/{name}/{pname}", "reverse-mode differentiation through the constructor raises",
                              error=(type(ex_).__name__ + ": " + str(ex_))[:300], **info)
                rec.outcome_array(dy.ravel()[:: max(1, dy.size // 8)])
    rec.sample({"class": name, "D": D, "N": N, "parameters": sorted(plist), "base_points": sorted(pts)})


def run_unit(u, rec):
    {"jac": unit_jac, "param": unit_param}[u["kind"]](u, rec)

"""
C08 - steppers commute with the symmetries of the periodic box.

Full group enumeration x state lattice, differential oracle S(T u) vs T S(u) on the real code:
  * ALL N^D grid translations (restricted to the forcing's invariant directions for Kolmogorov steppers),
    states incl. white-noise-like ternary patterns (translations hold for every state)
  * ALL D! axis permutations with the matching channel permutation for vector-valued steppers, isotropic
    coefficient choices only; signed form S(-P w) = -P S(w) for the 2D vorticity pseudo-scalar; Nyquist-free states
  * ALL D embedding axes: a 2D/3D stepper on a state that is constant along all but one axis reproduces the 1D stepper
for every public stepper class (catalogue) x every ETDRK order x D x odd/even N.
"""

import itertools
import math

import numpy as np

from mc import catalog, ref

EPS = 2.3e-16
RULE = ("one state per (stepper entry, order, D, N, input state, group element); one stepper call per transformed state; "
        "distinct_nontrivial = distinct observed outputs")
ASSUMPTIONS = [
    "exhaustive in the group (all shifts, all permutations, all embedding axes) and bounded in the state lattice (a full nonlinear step is a high-degree polynomial); "
    "term-level equivariance for all states follows from C03 (the oracle there is equivariant) and the scheme structure from C02",
    "carve-outs: Kolmogorov forcing restricts translations and has no axis permutations; vorticity is a pseudo-scalar; generic steppers sum a0 over axes "
    "(embedding only where a0 = 0 and the interface does not depend on D); Nyquist-free states for permutations / embeddings",
]


def bounds(tier):
    if tier == "quick":
        return {"N": {1: [6, 9], 2: [7, 8], 3: [6]}, "orders": [0, 1, 2, 3, 4], "states": 2}
    return {"N": {1: [6, 7, 8, 9], 2: [6, 7, 8], 3: [6, 7, 8]}, "orders": [0, 1, 2, 3, 4], "states": 3}


def units(tier, seed):
    b = bounds(tier)
    us = []
    for e in catalog.entries():
        for D in e.dims:
            for N in b["N"][D]:
                if e.frac < 0.6 and N < 8:
                    N = N + 2  # cubic dealiasing needs N >= 8 for a non-trivial band
                us.append({"name": f"{e.name}/D{D}/N{N}", "entry": e.name, "D": D, "N": N, "orders": b["orders"], "nstates": b["states"], "cost": N**D * D * 5})
    return us


NO_EMBED = {"GeneralLinearStepper", "GeneralPolynomialStepper", "NormalizedPolynomialStepper"}


def embeddable(e):
    base = e.name.split("/")[0]
    if 1 not in e.dims or base.startswith("Difficulty") or base in NO_EMBED:
        return False
    return True


def mag_entry(e, D, N, L, dt):
    if e.sym is None:
        return 0.8 * 2 * np.pi * (N // 2) / L * math.sqrt(D) * dt
    k = tuple([N // 2] * D)
    return max(e.sym(k, D, N, L, ch)[1] for ch in range(e.channels(D))) * dt


def run_unit(u, rec):
    import jax
    import jax.numpy as jnp

    import exponax as ex

    e = catalog.by_name()[u["entry"]]
    D, N = u["D"], u["N"]
    C = e.channels(D)
    L, dt = (1.0, 1.0) if e.fixed else (2.5, 0.05)
    rec.dim("entry", e.name)
    rec.dim("D", D)
    rec.dim("N", N)
    smooth = catalog.smooth_states(D, N, C, u["seed"], count=u["nstates"], amp=e.amp)
    # a white-noise-like ternary pattern for translations (content up to Nyquist)
    pat = (np.mod(np.arange(C * N**D) * 7 + (np.arange(C * N**D) // 3) * 5 + u["seed"], 3) - 1.0).reshape((C,) + (N,) * D) * 0.4
    orders = (0,) if e.linear else u["orders"]
    mag = mag_entry(e, D, N, L, dt)
    spatial = tuple(range(1, D + 1))
    for order in orders:
        rec.dim("order", order)
        st = e.build(ex, jnp, D, N, L, dt, order)
        vst = jax.jit(jax.vmap(st))
        # ---------------------------------------------------------------- translations
        shift_axes = [a for a in range(D)]
        if e.forced and "Kolmogorov" in e.name or "injection" in e.name:
            shift_axes = [a for a in range(D) if a != 1]  # the forcing varies along the second spatial axis
        shifts = list(itertools.product(*[(range(N) if a in shift_axes else (0,)) for a in range(D)]))
        for si, s in enumerate(smooth + [pat]):
            base = np.asarray(st(jnp.asarray(s)))
            if not np.all(np.isfinite(base)):
                rec.notes.append(f"{e.name} D={D} N={N} order={order}: non-finite step on state {si}, skipped")
                continue
            batch = np.stack([np.roll(s, sh, axis=spatial) for sh in shifts])
            got = np.asarray(vst(jnp.asarray(batch)))
            want = np.stack([np.roll(base, sh, axis=spatial) for sh in shifts])
            scale = max(1.0, float(np.max(np.abs(base))))
            err = np.max(np.abs(got - want).reshape(len(shifts), -1), axis=1)
            i = int(np.argmax(err))
            rec.count(states=len(shifts), transitions=len(shifts), traces=len(shifts))
            rec.close(err[i], 1e4 * EPS * (1 + mag) * scale, f"C08/translation/{e.name}", "stepping a translated state is not the translated result",
                      D=D, N=N, order=order, state=si, shift=list(shifts[i]))
            rec.outcome_array(base.ravel()[:: max(1, base.size // 8)])
        # the sub-stepping wrapper is an autonomous stepper as well: all translations of the white-noise-like state through RepeatedStepper(st, 2)
        if order == orders[len(orders) // 2]:
            rs = ex.RepeatedStepper(st, 2)
            vrs = jax.jit(jax.vmap(rs))
            base = np.asarray(rs(jnp.asarray(pat)))
            if np.all(np.isfinite(base)):
                got = np.asarray(vrs(jnp.asarray(np.stack([np.roll(pat, sh, axis=spatial) for sh in shifts]))))
                want = np.stack([np.roll(base, sh, axis=spatial) for sh in shifts])
                scale = max(1.0, float(np.max(np.abs(base))))
                err = np.max(np.abs(got - want).reshape(len(shifts), -1), axis=1)
                i = int(np.argmax(err))
                rec.count(states=len(shifts), transitions=len(shifts), traces=len(shifts))
                rec.close(err[i], 1e5 * EPS * (1 + mag) * scale, f"C08/translation_repeated/{e.name}", "sub-stepping (RepeatedStepper) a translated state is not the translated result",
                          D=D, N=N, order=order, shift=list(shifts[i]))
        # ---------------------------------------------------------------- axis permutations
        if D >= 2 and e.iso:
            for perm in itertools.permutations(range(D)):
                if perm == tuple(range(D)):
                    continue
                sign = 1.0
                if e.pseudo:
                    # parity of the permutation: the vorticity is a pseudo-scalar
                    inv = sum(1 for i in range(D) for j in range(i + 1, D) if perm[i] > perm[j])
                    sign = -1.0 if inv % 2 else 1.0

                def P(f):
                    g = np.transpose(f, (0,) + tuple(1 + p for p in perm))
                    if e.vector:
                        g = g[list(perm)]
                    return sign * g

                # on odd grids there is no Nyquist mode: the white-noise-like state (content up to the highest mode of every axis) must commute as well
                for si, s in enumerate(smooth + ([pat] if N % 2 == 1 else [])):
                    a = np.asarray(st(jnp.asarray(P(s))))
                    b = P(np.asarray(st(jnp.asarray(s))))
                    scale = max(1.0, float(np.max(np.abs(b))))
                    rec.count(states=1, transitions=2, traces=1)
                    rec.close(np.max(np.abs(a - b)), 1e4 * EPS * (1 + mag) * scale, f"C08/permutation/{e.name}", "stepping an axis-permuted state is not the permuted result",
                              D=D, N=N, order=order, state=si, perm=list(perm))
        # ---------------------------------------------------------------- embedding of the 1D stepper
        if D >= 2 and embeddable(e):
            st1 = e.build(ex, jnp, 1, N, L, dt, order)
            C1 = e.channels(1)
            pat1 = (np.mod(np.arange(C1 * N) * 7 + (np.arange(C1 * N) // 3) * 5 + u["seed"], 3) - 1.0).reshape((C1, N)) * 0.4
            for s1 in catalog.smooth_states(1, N, C1, u["seed"] + 3, count=u["nstates"], amp=e.amp) + ([pat1] if N % 2 == 1 else []):
                want1 = np.asarray(st1(jnp.asarray(s1)))
                for axis in range(D):
                    shape = [1] * D
                    shape[axis] = N
                    emb = np.zeros((C,) + (N,) * D)
                    if e.vector:
                        emb[axis] = np.broadcast_to(s1[0].reshape(shape), (N,) * D)
                        wantD = np.zeros_like(emb)
                        wantD[axis] = np.broadcast_to(want1[0].reshape(shape), (N,) * D)
                    else:
                        for c in range(C):
                            emb[c] = np.broadcast_to(s1[c].reshape(shape), (N,) * D)
                        wantD = np.stack([np.broadcast_to(want1[c].reshape(shape), (N,) * D) for c in range(C)])
                    got = np.asarray(st(jnp.asarray(emb)))
                    scale = max(1.0, float(np.max(np.abs(wantD))))
                    rec.count(states=1, transitions=2, traces=1)
                    rec.close(np.max(np.abs(got - wantD)), 1e4 * EPS * (1 + mag) * scale, f"C08/embedding/{e.name}",
                              "a higher-dimensional stepper on a state constant along the other axes differs from the 1D stepper", D=D, N=N, order=order, axis=axis)
    rec.sample({"entry": e.name, "D": D, "N": N, "orders": list(orders), "shifts": N**D, "permutations": math.factorial(D) - 1 if e.iso and D >= 2 else 0,
                "embedding_axes": D if (D >= 2 and embeddable(e)) else 0})

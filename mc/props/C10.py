"""
C10 - incompressibility is enforced and preserved.

  * Leray and make_incompressible are linear: every vector basis field (scalar Nyquist-free basis function x
    channel), D in {2,3}, odd/even N, L in a lattice: zero spectral divergence of the output, idempotence,
    identity on a divergence-free basis, agreement of the two routines, agreement with an own projector.
  * ProjectedConvection3d is quadratic: the divergence of its output is a quadratic map that must vanish on the
    simplex lattice Lambda_2 of the retained-band basis and on (v + e) for every out-of-band / Nyquist basis
    vector e  => vanishes for every input.
  * NavierStokesVelocity / KolmogorovFlowVelocity: BFS chains (depth 5) from divergence-free states x orders 1-4 x
    parameter lattice; invariant max |kappa . u_hat| <= tol in every visited state.
"""

import itertools
import math

import numpy as np

from mc import ref
from mc.core import bfs

EPS = 2.3e-16
RULE = ("one state per (D, N, L, basis field) for the projections, per lattice point for the convection term, per (stepper, params, order, initial state, "
        "number of steps) for the chains; transition = one library call; distinct_nontrivial = distinct observed outputs")
ASSUMPTIONS = [
    "lift L for the projections, lift P (degree 2) for the divergence of the projected convection term",
    "divergence is measured with own wavenumbers (mc.ref) on the rfft layout; Nyquist-free inputs for the physical-space routine",
]
LS = [1.0, 2 * math.pi, 0.5]


def bounds(tier):
    if tier == "quick":
        return {"N": {2: [3, 4, 5, 6, 7, 8], 3: [3, 4, 5]}, "L": LS, "conv_N": [6, 7, 8], "chain_N": [6, 7, 8], "depth": 5, "orders": [1, 2, 3, 4]}
    return {"N": {2: list(range(3, 11)), 3: [3, 4, 5, 6, 7]}, "L": LS, "conv_N": [6, 7, 8, 9], "chain_N": [6, 7, 8, 9], "depth": 5, "orders": [1, 2, 3, 4]}


def units(tier, seed):
    b = bounds(tier)
    us = []
    for D in (2, 3):
        for N in b["N"][D]:
            us.append({"name": f"proj/D{D}/N{N}", "kind": "proj", "D": D, "N": N, "cost": N ** (2 * D)})
    for N in b["conv_N"]:
        us.append({"name": f"conv3d/N{N}", "kind": "conv", "N": N, "cost": 40 * N**3})
    for cls in ("NavierStokesVelocity", "KolmogorovFlowVelocity"):
        for N in b["chain_N"]:
            for order in b["orders"]:
                us.append({"name": f"chain/{cls}/N{N}/o{order}", "kind": "chain", "cls": cls, "N": N, "order": order, "depth": b["depth"], "cost": 30 * N**3})
    return us


def divergence_hat(uh, W, L):
    """sum_d i kappa_d u_hat_d ; uh (..., D, rfft shape)"""
    D = W.shape[0]
    out = 0
    for d in range(D):
        out = out + 1j * (2 * np.pi / L) * W[d] * np.take(uh, d, axis=-(D + 1))
    return out


def unit_proj(u, rec):
    import jax
    import jax.numpy as jnp

    import exponax as ex

    D, N = u["D"], u["N"]
    rec.dim("D", D)
    rec.dim("N", N)
    basis = ref.real_basis(D, N, nyquist=False)
    W = ref.rfft_wavenumbers(D, N)
    axes = tuple(range(-D, 0))
    for L in LS:
        X = ref.grid(D, N, L)
        B = ref.basis_fields(D, N, L, basis, X)
        nb = len(basis)
        fields = np.zeros((nb * D, D) + (N,) * D)
        for i in range(nb):
            for c in range(D):
                fields[i * D + c, c] = B[i]
        # own projection of each (mode, channel)
        want = fields.copy()
        for i, (k, cs) in enumerate(basis):
            k2 = sum(v * v for v in k)
            if k2 == 0:
                continue
            for c in range(D):
                for e in range(D):
                    want[i * D + c, e] = fields[i * D + c, e] - (k[e] * k[c] / k2) * B[i]
        ler = ex.nonlin_fun.Leray(D, N, derivative_operator=ex.spectral.build_derivative_operator(D, L, N))
        fh = np.fft.rfftn(fields, axes=axes)
        got_l = np.asarray(jax.vmap(ler)(jnp.asarray(fh)))
        got_m = np.asarray(jax.vmap(ex.spectral.make_incompressible)(jnp.asarray(fields)))
        rec.count(states=2 * len(fields), transitions=2 * len(fields), traces=2 * len(fields))
        sc = float(N**D)
        tol = 1e3 * EPS * N
        gl_phys = np.fft.irfftn(got_l, s=(N,) * D, axes=axes)
        rec.close(np.max(np.abs(gl_phys - want)), tol, "C10/leray/value", "Leray projection differs from u - k(k.u)/|k|^2", D=D, N=N, L=L)
        rec.close(np.max(np.abs(got_m - want)), tol, "C10/make_incompressible/value", "make_incompressible differs from u - k(k.u)/|k|^2", D=D, N=N, L=L)
        rec.close(np.max(np.abs(divergence_hat(got_l, W, L))) / sc, tol * (2 * np.pi / L) * N, "C10/leray/divergence", "Leray output has non-zero spectral divergence", D=D, N=N, L=L)
        gm_hat = np.fft.rfftn(got_m, axes=axes)
        rec.close(np.max(np.abs(divergence_hat(gm_hat, W, L))) / sc, tol * (2 * np.pi / L) * N, "C10/make_incompressible/divergence", "make_incompressible output has non-zero spectral divergence", D=D, N=N, L=L)
        rec.close(np.max(np.abs(got_l - gm_hat)) / sc, tol, "C10/agree", "Leray and make_incompressible disagree", D=D, N=N, L=L)
        # idempotence
        again_l = np.asarray(jax.vmap(ler)(jnp.asarray(got_l)))
        again_m = np.asarray(jax.vmap(ex.spectral.make_incompressible)(jnp.asarray(got_m)))
        rec.count(transitions=2 * len(fields))
        rec.close(np.max(np.abs(again_l - got_l)) / sc, tol, "C10/leray/idempotent", "P(P(u)) != P(u) for Leray", D=D, N=N, L=L)
        rec.close(np.max(np.abs(again_m - got_m)), tol, "C10/make_incompressible/idempotent", "P(P(u)) != P(u) for make_incompressible", D=D, N=N, L=L)
        # identity on a divergence-free basis: for each k != 0 the D-1 polarisations orthogonal to k (own construction), and constants
        sol = []
        for i, (k, cs) in enumerate(basis):
            kv = np.array(k, dtype=float)
            if not kv.any():
                pols = np.eye(D)
            else:
                # orthogonal complement of k by Gram-Schmidt on the coordinate vectors
                pols = []
                for e in np.eye(D):
                    v = e - kv * (kv @ e) / (kv @ kv)
                    for p in pols:
                        v = v - p * (p @ v)
                    if np.linalg.norm(v) > 1e-8:
                        pols.append(v / np.linalg.norm(v))
                pols = np.array(pols[: D - 1])
            for p in pols:
                sol.append(np.stack([p[c] * B[i] for c in range(D)]))
        sol = np.stack(sol)
        ws = ref.weights(len(sol), u["seed"])
        sol = np.concatenate([sol, np.tensordot(ws, sol, axes=1)[None]])
        sh = np.fft.rfftn(sol, axes=axes)
        kept_l = np.asarray(jax.vmap(ler)(jnp.asarray(sh)))
        kept_m = np.asarray(jax.vmap(ex.spectral.make_incompressible)(jnp.asarray(sol)))
        rec.count(states=2 * len(sol), transitions=2 * len(sol), traces=2 * len(sol))
        amp = float(np.sum(np.abs(ws)))
        rec.close(np.max(np.abs(kept_l - sh)) / sc, tol * amp, "C10/leray/identity_on_solenoidal", "Leray changes a divergence-free field", D=D, N=N, L=L)
        rec.close(np.max(np.abs(kept_m - sol)), tol * amp, "C10/make_incompressible/identity_on_solenoidal", "make_incompressible changes a divergence-free field", D=D, N=N, L=L)
        rec.outcome_array(got_m[: min(4, len(got_m))])
    rec.sample({"D": D, "N": N, "vector_basis": nb * D, "solenoidal_basis": int(len(sol) - 1), "L": LS})


def unit_conv(u, rec):
    import jax
    import jax.numpy as jnp

    import exponax as ex

    D, N = 3, u["N"]
    rec.dim("N", N)
    K = ref.band_limit(D, N, 2 / 3)
    full_basis = ref.real_basis(D, N, nyquist=True)
    inb = [b for b in full_basis if all(abs(v) <= K for v in b[0]) and not ref.is_nyquist(b[0], N)]
    outb = [b for b in full_basis if b not in inb]
    W = ref.rfft_wavenumbers(D, N)
    axes = (-3, -2, -1)
    for L in (1.0, 2 * math.pi):
        X = ref.grid(D, N, L)
        Bin = ref.basis_fields(D, N, L, inb, X)
        Bout = ref.basis_fields(D, N, L, outb, X)
        n = len(inb) * 3
        term = ex.nonlin_fun.ProjectedConvection3d(D, N, derivative_operator=ex.spectral.build_derivative_operator(D, L, N), dealiasing_fraction=2 / 3)
        call = jax.jit(jax.vmap(term))
        states = []
        for j in range(3):
            for comb in itertools.combinations_with_replacement(range(n), j):
                st = np.zeros((3,) + (N,) * 3)
                for i in comb:
                    st[i % 3] += Bin[i // 3]
                states.append(st)
        rng = ref.weights(n, u["seed"] + 1)
        v = np.zeros((3,) + (N,) * 3)
        for i in range(n):
            v[i % 3] += 0.5 * rng[i] * Bin[i // 3] / len(inb) ** 0.5
        for e in range(len(outb)):
            for c in range(3):
                s = v.copy()
                s[c] += 0.9 * Bout[e]
                states.append(s)
        states = np.stack(states)
        rec.dim("lattice_points", len(states))
        chunk = 2048
        kap = (2 * np.pi / L) * K + 1.0
        worst = 0.0
        for a0 in range(0, len(states), chunk):
            st = states[a0:a0 + chunk]
            nreal = len(st)
            if nreal < chunk and len(states) > chunk:
                st = np.concatenate([st, np.zeros((chunk - nreal,) + st.shape[1:])])
            out = np.asarray(call(jnp.asarray(np.fft.rfftn(st, axes=axes))))[:nreal]
            div = np.abs(divergence_hat(out, W, L)) / N**3
            rec.count(states=nreal, transitions=nreal, traces=nreal)
            i = int(np.argmax(div.reshape(nreal, -1).max(axis=1)))
            rec.close(float(div[i].max()), 1e4 * EPS * kap**2 * 9.0, "C10/projected_convection/divergence", "the 3D rotational convection term is not divergence-free",
                      N=N, L=L, state=int(a0 + i))
            rec.check(bool(np.all(np.isfinite(out))), "C10/projected_convection/finite", "non-finite output", N=N, L=L)
            rec.outcome_array(out[nreal // 2].ravel()[::97])
    rec.sample({"term": "ProjectedConvection3d", "N": N, "K": K, "in_band_vector_basis": n, "out_of_band_vectors": len(outb) * 3})


def solenoidal_states(N, L, seed):
    """divergence-free band-limited initial states (own construction): single shear modes, a pair, and projected smooth fields"""
    X = ref.grid(3, N, L)
    kap = 2 * np.pi / L
    out = []
    z = np.zeros((N,) * 3)
    out.append(np.stack([np.sin(kap * X[1]), z, z]))
    out.append(np.stack([z, np.cos(kap * X[2]), 0.5 * np.sin(kap * X[0])]))
    # Taylor-Green like
    out.append(np.stack([np.cos(kap * X[0]) * np.sin(kap * X[1]), -np.sin(kap * X[0]) * np.cos(kap * X[1]), z]) * 0.8)
    # own projection of a smooth random-like field
    rng = np.random.RandomState(77 + seed)
    f = np.zeros((3,) + (N,) * 3)
    for c in range(3):
        for k in itertools.product((-1, 0, 1), repeat=3):
            f[c] += rng.uniform(-1, 1) * np.cos(kap * sum(k[d] * X[d] for d in range(3)) + rng.uniform(0, 6.28)) / 5
    fh = np.fft.fftn(f, axes=(-3, -2, -1))
    kk = np.stack(np.meshgrid(*[np.fft.fftfreq(N, 1.0 / N)] * 3, indexing="ij"))
    k2 = np.sum(kk**2, axis=0)
    kd = np.sum(kk * fh, axis=0)
    fh = fh - kk * np.where(k2 > 0, kd / np.where(k2 > 0, k2, 1.0), 0.0)
    out.append(np.real(np.fft.ifftn(fh, axes=(-3, -2, -1))))
    return out


def unit_chain(u, rec):
    import jax.numpy as jnp

    import exponax as ex

    cls, N, order = u["cls"], u["N"], u["order"]
    W = ref.rfft_wavenumbers(3, N)
    axes = (-3, -2, -1)
    rec.dim("class", cls)
    rec.dim("order", order)
    rec.dim("N", N)
    pars = [(2 * math.pi, 0.05, 0.02, 0.0), (1.0, 0.01, 0.002, -0.1), (3.0, 0.1, 0.1, 0.05)]  # (L, dt, nu, drag)
    for (L, dt, nu, drag) in pars:
        if cls == "NavierStokesVelocity":
            st = ex.stepper.NavierStokesVelocity(3, L, N, dt, diffusivity=nu, drag=drag, order=order)
        else:
            st = ex.stepper.KolmogorovFlowVelocity(3, L, N, dt, diffusivity=nu, drag=drag, injection_mode=1, injection_scale=0.7, order=order)
        for si, s0 in enumerate(solenoidal_states(N, L, u["seed"])):
            amp = float(np.max(np.abs(s0)))

            def step(op, key, iv, mv):
                return key + 1, st(iv), key + 1

            def inv(key, iv, mv, trace):
                f = np.asarray(iv)
                if not rec.check(bool(np.all(np.isfinite(f))), f"C10/{cls}/finite", "non-finite state in the chain", N=N, L=L, order=order, steps=key):
                    return
                div = np.max(np.abs(divergence_hat(np.fft.rfftn(f, axes=axes), W, L))) / N**3
                scale = max(amp, float(np.max(np.abs(f)))) * (2 * np.pi / L) * (N // 2)
                rec.close(div, 1e4 * EPS * scale * (1 + key), f"C10/{cls}/divergence", "a divergence-free state does not stay divergence-free",
                          N=N, L=L, dt=dt, nu=nu, drag=drag, order=order, state=si, steps=key)
                rec.outcome("chain", cls, N, L, order, si, key, float(np.sum(f * f)))

            bfs(rec, [(0, jnp.asarray(s0), 0)], ["step"], step, inv, depth=u["depth"], label=f"C10/{cls}")
    rec.sample({"class": cls, "N": N, "order": order, "params_L_dt_nu_drag": pars, "initial_states": 4, "depth": u["depth"]})


def run_unit(u, rec):
    {"proj": unit_proj, "conv": unit_conv, "chain": unit_chain}[u["kind"]](u, rec)

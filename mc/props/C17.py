"""
C17 - radial spectrum: every mode lands in its documented bin with Parseval weights.

Full enumeration of every wavevector of the grid as a single-mode field (all sign combinations on leading
axes, corners outside the Nyquist sphere, DC, Nyquist) x power/amplitude x sum/average x channel counts, and -
because the power spectrum is a quadratic form per bin - all basis pairs (Lambda_2) for arbitrary states,
against an explicit per-mode sum over the full complex spectrum (own binning rule floor(|k|+1/2)).
"""

import itertools
import math

import numpy as np

from mc import ref

EPS = 2.3e-16
RULE = ("one state per (D, N, wavevector, amplitude/phase) single-mode field and per basis pair; x {power, amplitude} x {sum, average}; "
        "transition = one get_spectrum call; distinct_nontrivial = distinct observed spectra")
ASSUMPTIONS = [
    "quadratic lift: the power spectrum is a quadratic form per bin, so basis pairs decide it for all states; the amplitude spectrum is additionally "
    "checked on single modes and superpositions against the per-mode sum",
    "no integer wavevector lies on a bin boundary (|k|^2 integer, (m+1/2)^2 not)",
]
AP = [(1.0, 0.0), (0.7, 1.1), (-1.6, 2.5)]


def bounds(tier):
    if tier == "quick":
        return {"N": {1: list(range(3, 21)), 2: list(range(3, 11)), 3: [3, 4, 5, 6]}, "amp_phase": AP}
    return {"N": {1: list(range(3, 33)), 2: list(range(3, 17)), 3: list(range(3, 10))}, "amp_phase": AP}


def units(tier, seed):
    b = bounds(tier)
    return [{"name": f"D{D}/N{N}", "D": D, "N": N, "cost": N ** (2 * D)} for D in (1, 2, 3) for N in b["N"][D]]


def bin_of(k):
    r = math.sqrt(sum(v * v for v in k))
    return int(math.floor(r + 0.5))


def model_spectrum(U, D, N, power, binning, counts):
    """explicit per-mode sum over the FULL complex spectrum: U (B, C, N..N) -> (B, C, N//2+1)"""
    axes = tuple(range(-D, 0))
    c = np.fft.fftn(U, axes=axes) / (N**D)
    out = np.zeros(U.shape[:2] + (N // 2 + 1,))
    for idx in np.ndindex(*(N,) * D):
        k = tuple(ref.idx_to_k(j, N) if not (N % 2 == 0 and j == N // 2) else -(N // 2) for j in idx)
        b = bin_of(k)
        if b > N // 2:
            continue
        a = np.abs(c[(slice(None), slice(None)) + idx])
        out[:, :, b] += 0.5 * a * a if power else a
    if binning == "average":
        with np.errstate(invalid="ignore", divide="ignore"):
            out = out / counts[None, None, :]
    return out


def run_unit(u, rec):
    import jax
    import jax.numpy as jnp

    import exponax as ex

    D, N = u["D"], u["N"]
    L = 1.0
    rec.dim("D", D)
    rec.dim("N", N)
    X = ref.grid(D, N, L)
    nb = N // 2 + 1
    # number of STORED half-spectrum modes per bin (own layout rule)
    W = ref.rfft_wavenumbers(D, N)
    counts = np.zeros(nb)
    for idx in np.ndindex(*W.shape[1:]):
        b = bin_of(tuple(int(W[d][idx]) for d in range(D)))
        if b <= N // 2:
            counts[b] += 1
    ks = ref.all_wavevectors(D, N)
    fields, meta = [], []
    for k in ks:
        for (a, ph) in AP:
            fields.append(ref.mode_field(k, X, L, a, ph))
            meta.append((k, a, ph))
    F = np.stack(fields)[:, None]  # (B, 1, N..)
    # two-channel variant: channel 1 carries the NEXT field (channel independence)
    F2 = np.concatenate([F, np.roll(F, -1, axis=0)], axis=1)
    opts = [(p, b) for p in (True, False) for b in ("sum", "average")]
    for power, binning in opts:
        fn = jax.jit(jax.vmap(lambda s: ex.get_spectrum(s, power=power, radial_binning=binning)))
        got = np.asarray(fn(jnp.asarray(F)))
        got2 = np.asarray(fn(jnp.asarray(F2)))
        rec.count(states=2 * len(F), transitions=2 * len(F), traces=2 * len(F))
        if not rec.check(got.shape == (len(F), 1, nb) and got2.shape == (len(F), 2, nb), "C17/shape", "spectrum shape is not (C, N//2+1)", D=D, N=N, got=list(got.shape)):
            continue
        tag = f"{'power' if power else 'amplitude'}/{binning}"
        for i, (k, a, ph) in enumerate(meta):
            selfc = ref.self_conjugate(k, N)
            amp = abs(a * math.cos(ph)) if selfc else abs(a)
            b = bin_of(k) if D > 1 else abs(k[0])
            want = np.zeros(nb)
            if b <= N // 2:
                if power:
                    want[b] = 0.5 * amp * amp if selfc else 0.25 * amp * amp
                else:
                    want[b] = amp
                if binning == "average" and D > 1:
                    want[b] /= counts[b]
            g = got[i, 0]
            if D > 1 and binning == "average":
                g = np.where(counts > 0, g, 0.0)  # empty bins: mean over an empty set (NaN) is outside the property
            ok = rec.close(np.max(np.abs(g - want)), 1e3 * EPS * max(1.0, a * a) * N**D, f"C17/single_mode/{tag}",
                           "a single-mode field does not land in bin round(|k|) with the documented weight", D=D, N=N, k=k, a=a, phase=ph,
                           got=g, want=want)
            # channel independence
            g2 = got2[i]
            if D > 1 and binning == "average":
                g2 = np.where(counts[None, :] > 0, g2, 0.0)
            j = (i + 1) % len(F)
            gj = got[j, 0] if not (D > 1 and binning == "average") else np.where(counts > 0, got[j, 0], 0.0)
            rec.close(max(np.max(np.abs(g2[0] - g)), np.max(np.abs(g2[1] - gj))), 1e3 * EPS * 4 * N**D, f"C17/channel_independence/{tag}",
                      "channels are not treated independently", D=D, N=N, k=k)
            if not ok:
                break
        rec.outcome_array(got[:: max(1, len(got) // 8)])
        # Parseval for sum/power: sum over bins == 0.5*mean(u_in^2), u_in = part of the state inside the Nyquist sphere
        if power and binning == "sum":
            for i, (k, a, ph) in enumerate(meta):
                inside = (bin_of(k) <= N // 2) if D > 1 else True
                msq = float(np.mean(F[i, 0] ** 2)) if inside else 0.0
                rec.close(abs(float(np.sum(got[i, 0])) - 0.5 * msq), 1e3 * EPS * a * a * N**D, "C17/parseval", "sum of the power spectrum != 0.5*mean(u_in^2)",
                          D=D, N=N, k=k, a=a, phase=ph)
    # arbitrary states: Lambda_2 over the real basis (pairs) + superposition, against the explicit per-mode sum
    basis = ref.real_basis(D, N, nyquist=True)
    Bf = ref.basis_fields(D, N, L, basis, X)
    nbs = len(basis)
    pairs = list(itertools.combinations_with_replacement(range(nbs), 2))
    if len(pairs) > 6000:
        # the pair lattice is thinned on the largest grids only: every basis function still appears paired with a stride of partners
        stride = len(pairs) // 6000 + 1
        pairs = pairs[::stride]
        rec.notes.append(f"D={D} N={N}: pair lattice thinned by stride {stride} ({len(pairs)} pairs)")
    w = ref.weights(nbs, u["seed"])
    st = np.stack([Bf[i] + 0.6 * Bf[j] for i, j in pairs] + [np.tensordot(w, Bf, axes=1)])[:, None]
    for power, binning in opts:
        fn = jax.jit(jax.vmap(lambda s: ex.get_spectrum(s, power=power, radial_binning=binning)))
        got = np.asarray(fn(jnp.asarray(st)))
        want = model_spectrum(st, D, N, power, binning if D > 1 else "sum", counts)
        if D > 1 and binning == "average":
            got = np.where(counts[None, None, :] > 0, got, 0.0)
            want = np.where(counts[None, None, :] > 0, want, 0.0)
        rec.count(states=len(st), transitions=len(st), traces=len(st))
        err = np.max(np.abs(got - want).reshape(len(st), -1), axis=1)
        i = int(np.argmax(err))
        rec.close(err[i], 1e3 * EPS * N**D * float(np.sum(np.abs(w))) ** 2, f"C17/arbitrary/{'power' if power else 'amplitude'}/{binning}",
                  "spectrum of a two-mode / superposition state differs from the explicit per-mode sum", D=D, N=N,
                  pair=[list(basis[p][0]) + [basis[p][1]] for p in (pairs[i] if i < len(pairs) else ())])
    rec.sample({"D": D, "N": N, "wavevectors": len(ks), "pairs": len(pairs), "bins": nb, "stored_modes_per_bin": counts.tolist(),
                "example": {"k": list(ks[len(ks) // 3]), "bin": bin_of(ks[len(ks) // 3])}})

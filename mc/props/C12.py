"""
C12 - forcing terms inject exactly the documented field.

Full product over (stepper, L, N, injection mode, injection scale, viscosity/drag, order, dt) and BFS chains of
1..4 steps from rest.  Oracle: the laminar solution f*(exp(sigma t)-1)/sigma of the documented forced equation
(sigma = drag - nu*(2 pi k/L)^2): ETDRK of any order integrates a constant nonlinear term exactly, and the
convective term vanishes identically on the laminar shear profile, so equality is to rounding.  The observed
field is decomposed with an own full FFT into channel / direction / wavenumber / amplitude / phase, each with its
own violation signature.  ForcedStepper: f = 0 equals the base step, general f equals base(u + dt f) in
step, step_fourier and __call__.
"""

import itertools
import math

import numpy as np

from mc import catalog, ref
from mc.core import bfs

EPS = 2.3e-16
RULE = ("one state per (stepper, L, N, k, gamma, nu, drag, order, dt, number of steps) reached from rest, and per (base stepper, state, forcing, entry point) "
        "for ForcedStepper; transition = one stepper call; distinct_nontrivial = distinct observed fields")
ASSUMPTIONS = [
    "the laminar shear profile is an exact solution (convection vanishes on it), so every ETDRK order reproduces f*(e^{sigma t}-1)/sigma to rounding",
    "finite lattices of L, N, injection mode/scale, viscosity/drag, dt; chains of up to 4 steps",
]
LS = [2 * math.pi, 1.0, 3.7]
PARS = [(0.01, 0.0), (0.05, -0.1), (0.0, -0.2), (0.02, 0.1)]
GAMMAS = [1.0, 0.5, -2.0]


def bounds(tier):
    if tier == "quick":
        return {"N": {2: [7, 8, 9, 12], 3: [6, 7]}, "L": LS, "modes": [1, 2, 3], "gamma": GAMMAS, "nu_drag": PARS, "orders": [1, 2, 3, 4], "dt": [0.1, 1.0], "steps": 4, "thin": 5}
    return {"N": {2: [7, 8, 9, 10, 11, 12, 13], 3: [6, 7, 8, 9]}, "L": LS, "modes": [1, 2, 3], "gamma": GAMMAS, "nu_drag": PARS, "orders": [1, 2, 3, 4],
            "dt": [0.1, 1.0, 10.0], "steps": 4}


def units(tier, seed):
    b = bounds(tier)
    us = []
    for kind, D in (("KolmogorovFlowVorticity", 2), ("GeneralVorticityConvectionStepper", 2), ("KolmogorovFlowVelocity", 3)):
        for N in b["N"][D]:
            for L in b["L"]:
                us.append({"name": f"{kind}/N{N}/L{L:.3g}", "kind": "kolmogorov", "cls": kind, "D": D, "N": N, "L": L, "b": b, "cost": N**D * (4 if D == 3 else 1)})
    for base in ["Diffusion", "Burgers", "KuramotoSivashinsky", "NavierStokesVorticity", "GrayScott", "KortewegDeVries", "NavierStokesVelocity", "Wave"]:
        us.append({"name": f"forced/{base}", "kind": "forced", "base": base, "cost": 50})
    return us


def decompose(field, D, N):
    """full normalised spectrum of every channel: dict (channel, k) -> coefficient for entries above noise"""
    out = {}
    for c in range(field.shape[0]):
        spec = np.fft.fftn(field[c]) / (N**D)
        scale = max(1e-300, float(np.max(np.abs(spec))))
        for idx in np.argwhere(np.abs(spec) > 1e-9 * max(scale, 1e-30)):
            k = tuple(ref.idx_to_k(int(j), N) for j in idx)
            out[(c, k)] = spec[tuple(idx)]
    return out


def unit_kolmogorov(u, rec):
    import jax.numpy as jnp

    import exponax as ex

    cls, D, N, L, b = u["cls"], u["D"], u["N"], u["L"], u["b"]
    rec.dim("class", cls)
    rec.dim("N", N)
    rec.dim("L", L)
    X = ref.grid(D, N, L)
    C = 1 if D == 2 else 3
    zero = jnp.zeros((C,) + (N,) * D)
    combos = list(itertools.product(b["modes"], b["gamma"], b["nu_drag"], b["orders"], b["dt"]))
    thin = b.get("thin", 1) * (5 if D == 3 else 1)
    if thin > 1:  # deterministic thinning of the product (stated in bounds): every value of every dimension still occurs with every order
        combos = [c for i, c in enumerate(combos) if i % thin == 0]
    for ci, (k, gamma, (nu, drag), order, dt) in enumerate(combos):
        if k > (N - 1) // 2:  # up to and including the highest Nyquist-free mode ((N-1)/2 on odd grids, N/2-1 on even ones)
            continue
        kap = 2 * np.pi * k / L
        bconv = (1.0, 2.0, -1.5)[ci % 3]  # the convection scale must not touch the forcing (the laminar state has no convection)
        if cls == "KolmogorovFlowVorticity":
            st = ex.stepper.KolmogorovFlowVorticity(2, L, N, dt, diffusivity=nu, convection_scale=bconv, drag=drag, injection_mode=k, injection_scale=gamma, order=order)
            sigma = drag - nu * kap**2
        elif cls == "GeneralVorticityConvectionStepper":
            st = ex.stepper.generic.GeneralVorticityConvectionStepper(2, L, N, dt, vorticity_convection_scale=bconv, linear_coefficients=(drag / 2, 0.0, nu),
                                                                     injection_mode=k, injection_scale=gamma, order=order)
            sigma = drag - nu * kap**2  # the zeroth-order coefficient is summed over the D=2 axes
        else:
            st = ex.stepper.KolmogorovFlowVelocity(3, L, N, dt, diffusivity=nu, drag=drag, injection_mode=k, injection_scale=gamma, order=order)
            sigma = drag - nu * kap**2
        if D == 2:
            amp_f, shape_f, phase_name = -kap * gamma, np.cos(kap * X[1]), "cos"
        else:
            amp_f, shape_f, phase_name = gamma, np.sin(kap * X[1]), "sin"
        rec.dim("mode", k)
        rec.dim("convection_scale", bconv)
        rec.dim("gamma", gamma)
        rec.dim("order", order)
        rec.dim("dt", dt)

        def growth(n):
            t = n * dt
            return t if sigma == 0 else (math.exp(sigma * t) - 1) / sigma

        def step(op, key, iv, mv):
            if key >= b["steps"]:
                return None
            return key + 1, st(iv), key + 1

        def inv(key, iv, mv, trace, k=k, gamma=gamma, nu=nu, drag=drag, order=order, dt=dt, bconv=bconv):
            f = np.asarray(iv)
            info = dict(cls=cls, N=N, L=L, mode=k, gamma=gamma, nu=nu, drag=drag, order=order, dt=dt, steps=key, convection_scale=bconv)
            if key == 0:
                return
            A = amp_f * growth(key)
            scale = abs(A) + 1e-300
            # conditioning: the laminar shear flow (velocity amplitude |gamma|*growth) can amplify rounding noise in other modes at a rate
            # bounded by its shear kappa*U; runs whose accumulated shear*time exceeds 4 are ill-conditioned and skipped
            shear_time = kap * abs(gamma) * growth(key) * key * dt
            if shear_time > 4.0:
                rec.dim("skipped_ill_conditioned", f"shear*time>{4}")
                return
            tol = 1e4 * EPS * scale * (1 + abs(sigma) * key * dt) * (1 + kap * kap * nu * dt) * math.exp(shear_time)
            if not rec.check(np.all(np.isfinite(f)), f"C12/{cls}/finite", "non-finite state", **info):
                return
            dec = decompose(f, D, N)
            sig_noise = {kk: v for kk, v in dec.items() if abs(v) > 10 * tol}
            chans = {c for (c, _) in sig_noise}
            rec.check(chans <= {0} and len(chans) == 1, f"C12/{cls}/channel", "forcing does not act on exactly the documented channel", channels=sorted(chans), **info)
            dirs = set()
            for (c, kk) in sig_noise:
                nzaxes = tuple(a for a in range(D) if kk[a] != 0)
                dirs.add(nzaxes)
            rec.check(dirs == {(1,)}, f"C12/{cls}/direction", "forced field does not vary along the second spatial axis only", directions=sorted(dirs), **info)
            waven = {abs(kk[1]) for (c, kk) in sig_noise if kk[1] != 0}
            rec.check(waven == {k}, f"C12/{cls}/wavenumber", "forced wavenumber differs from the injection mode (2*pi*k/L)", wavenumbers=sorted(waven), **info)
            kvec = tuple(k if a == 1 else 0 for a in range(D))
            got = dec.get((0, kvec), 0.0)
            want = A / 2 if phase_name == "cos" else -1j * A / 2
            rec.close(abs(abs(got) - abs(want)), tol, f"C12/{cls}/amplitude", "amplitude differs from the laminar solution of the documented forcing",
                      got=float(2 * abs(got)), want=float(abs(A)), **info)
            rec.close(abs(got - want), tol, f"C12/{cls}/phase", "phase/sign of the forced mode differs from the documented one", got=complex(got), want=complex(want), **info)
            full = np.zeros_like(f)
            full[0] = A * shape_f
            rec.close(np.max(np.abs(f - full)), tol * 4, f"C12/{cls}/field", "state differs from the laminar solution f*(e^{sigma t}-1)/sigma", **info)
            rec.outcome("kol", cls, N, L, k, gamma, nu, drag, order, dt, key, float(np.sum(f * f)))

        bfs(rec, [(0, zero, 0)], ["step"], step, inv, depth=b["steps"], label=f"C12/{cls}")
    rec.sample({"class": cls, "N": N, "L": L, "example": {"mode": 1, "gamma": 1.0, "nu": 0.01, "drag": 0.0, "order": 1, "dt": 0.1, "steps": [1, 2, 3, 4]}})


def unit_forced(u, rec):
    import jax.numpy as jnp

    import exponax as ex

    e = catalog.by_name()[u["base"]]
    for D in e.dims[:2]:
        N = {1: 12, 2: 8, 3: 8}[D]
        L, dt = 2.5, 0.07
        C = e.channels(D)
        for order in ((0,) if e.linear else (1, 2, 4)):
            base = e.build(ex, jnp, D, N, L, dt, order)
            fs = ex.ForcedStepper(base)
            states = catalog.smooth_states(D, N, C, u["seed"], count=3, amp=e.amp) + [np.zeros((C,) + (N,) * D)]
            forc = [np.zeros((C,) + (N,) * D)] + catalog.smooth_states(D, N, C, u["seed"] + 9, count=2, amp=1.3)
            for (si, s), (fi, f) in itertools.product(enumerate(states), enumerate(forc)):
                sj, fj = jnp.asarray(s), jnp.asarray(f)
                want = np.asarray(base(sj + float(base.dt) * fj))
                scale = max(1.0, float(np.max(np.abs(want))))
                for entry in ("__call__", "step", "step_fourier"):
                    if entry == "__call__":
                        got = np.asarray(fs(sj, fj))
                    elif entry == "step":
                        got = np.asarray(fs.step(sj, fj))
                    else:
                        gh = fs.step_fourier(ex.fft(sj, num_spatial_dims=D), ex.fft(fj, num_spatial_dims=D))
                        got = np.asarray(ex.ifft(gh, num_spatial_dims=D, num_points=N))
                    rec.count(states=1, transitions=1, traces=1)
                    rec.close(np.max(np.abs(got - want)), 1e4 * EPS * scale, f"C12/forced/{e.name}/{entry}", "ForcedStepper(u, f) differs from base(u + dt*f)",
                              D=D, order=order, state=si, forcing=fi)
                    if fi == 0:
                        plain = np.asarray(base(sj))
                        rec.close(np.max(np.abs(got - plain)), 1e4 * EPS * scale, f"C12/forced/{e.name}/zero_forcing", "ForcedStepper with zero forcing differs from the base step",
                                  D=D, order=order, state=si, entry=entry)
                rec.outcome_array(got)
            # forcing a sub-stepped stepper (wrapper around wrapper around wrapper): the impulse uses the time the wrapped stepper really advances,
            # T = m*dt for m inner applications; the model is the naive loop of m base calls on u + T*f (no wrapper attribute is trusted)
            if order == ((0,) if e.linear else (1, 2, 4))[-1] and D == e.dims[0]:
                for label, m, wrapped in (("R2", 2, ex.RepeatedStepper(base, 2)), ("R2(R3)", 6, ex.RepeatedStepper(ex.RepeatedStepper(base, 3), 2))):
                    fsw = ex.ForcedStepper(wrapped)
                    for (si, s), (fi, f) in itertools.product(enumerate(states[:2]), enumerate(forc[1:])):
                        sj, fj = jnp.asarray(s), jnp.asarray(f)
                        cur = sj + m * float(base.dt) * fj
                        for _ in range(m):
                            cur = base(cur)
                        want = np.asarray(cur)
                        if not np.all(np.isfinite(want)):
                            continue
                        got = np.asarray(fsw(sj, fj))
                        scale = max(1.0, float(np.max(np.abs(want))))
                        rec.count(states=m, transitions=m, traces=1)
                        rec.close(np.max(np.abs(got - want)), 1e5 * EPS * scale * m, f"C12/forced_substepped/{e.name}/{label}",
                                  "ForcedStepper around sub-stepping wrappers differs from the unforced evolution over T of u + T*f", D=D, order=order, state=si, forcing=fi)
    rec.sample({"forced_base": e.name, "states": 4, "forcings": 3, "entries": ["__call__", "step", "step_fourier"]})


def run_unit(u, rec):
    {"kolmogorov": unit_kolmogorov, "forced": unit_forced}[u["kind"]](u, rec)

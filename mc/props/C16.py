"""
C16 - error metrics are consistent quadratures of the documented norms.

Every function of exponax.metrics x D x odd/even N x C x L x state pairs from (basis x basis) with O(1) amplitudes,
ternary patterns and superpositions x all band limits 0 <= low <= high <= N//2.  MSE-type metrics are quadratic
forms, so basis pairs decide them for all states (polarisation).  Oracles: explicit sums over the full complex
spectrum (own numpy FFT), exact integrals of trigonometric polynomials (Riemann sum on an independent finer
grid), Parseval, channel / band additivity, metric axioms, H1 = plain + metric of the spectral gradient,
correlation bounds.
"""

import itertools
import math

import numpy as np

from mc import ref

EPS = 2.3e-16
RULE = ("one state per (D, N, L, C, state pair) and per (band (low, high) | partition); transition = one metric call; "
        "distinct_nontrivial = distinct observed metric values")
ASSUMPTIONS = [
    "polarisation: quadratic (MSE-type) metrics are decided for all states by basis pairs; L1-type and normalised metrics are checked on the same pair lattice "
    "plus ternary and superposition states against explicit formulas / axioms",
    "Fourier metrics zero coefficients below an absolute 1e-5: all pair differences are exactly 0 or >= 1e-2 per active mode",
    "fourier_MAE is documented as not consistent with the spatial L1 norm: it is checked against its own definition (sum of |c_k|) and the axioms",
]
LS = [1.0, 2 * math.pi, 3.0]
FAM = {"MSE": (2.0, 1.0), "RMSE": (2.0, 0.5), "MAE": (1.0, 1.0)}


def bounds(tier):
    if tier == "quick":
        return {"N": {1: [8, 9], 2: [5, 6], 3: [4]}, "L": LS, "C": [1, 2, 3], "max_pairs": 400}
    return {"N": {1: [8, 9, 12, 15], 2: [5, 6, 8], 3: [4, 5]}, "L": LS, "C": [1, 2, 3], "max_pairs": 4000}


def units(tier, seed):
    b = bounds(tier)
    us = []
    for D in (1, 2, 3):
        for N in b["N"][D]:
            for L in b["L"]:
                us.append({"name": f"D{D}/N{N}/L{L:.3g}", "D": D, "N": N, "L": L, "max_pairs": b["max_pairs"], "cost": N ** (2 * D)})
    return us


def spec(u, D):
    """full normalised spectrum c_k of (B, C, N..N)"""
    N = u.shape[-1]
    return np.fft.fftn(u, axes=tuple(range(-D, 0))) / N**D


def kinf(D, N):
    ks = np.fft.fftfreq(N, 1.0 / N)
    g = np.stack(np.meshgrid(*[np.abs(ks)] * D, indexing="ij"))
    return np.max(g, axis=0)


def model_l2(diff, D, L, outer):
    """sum_c (int |d_c|^2)^outer via the full spectrum"""
    c = spec(diff, D)
    per = (L**D) * np.sum(np.abs(c) ** 2, axis=tuple(range(-D, 0)))
    return np.sum(per**outer, axis=1)


def model_l1_spatial(diff, D, L):
    N = diff.shape[-1]
    return np.sum((L / N) ** D * np.sum(np.abs(diff), axis=tuple(range(-D, 0))), axis=1)


def run_unit(u, rec):
    import jax
    import jax.numpy as jnp

    import exponax as ex

    M = ex.metrics
    D, N, L = u["D"], u["N"], u["L"]
    rec.dim("D", D)
    rec.dim("N", N)
    rec.dim("L", L)
    X = ref.grid(D, N, L)
    basis = ref.real_basis(D, N, nyquist=False)
    B = ref.basis_fields(D, N, L, basis, X)
    nb = len(basis)
    pairs = list(itertools.product(range(nb), repeat=2))
    if len(pairs) > u["max_pairs"]:
        stride = len(pairs) // u["max_pairs"] + 1
        pairs = pairs[::stride]
        rec.notes.append(f"D={D} N={N}: pair lattice thinned by stride {stride} ({len(pairs)} pairs)")
    w = ref.weights(nb, u["seed"])
    sup1, sup2 = np.tensordot(w, B, axes=1), np.tensordot(np.roll(w, 3) * 0.7, B, axes=1)
    tern = (np.mod(np.arange(N**D) * 5 + 1, 3) - 1.0).reshape((N,) * D)
    for C in (1, 2, 3):
        rec.dim("C", C)
        # state pairs (pred, ref): channel c uses basis functions (i + c, j + 2c)
        P = np.stack([np.stack([1.3 * B[(i + c) % nb] + 0.4 for c in range(C)]) for i, j in pairs] + [np.stack([sup1 + 0.1 * c for c in range(C)]), np.stack([tern * (1 + c) for c in range(C)])])
        R = np.stack([np.stack([0.8 * B[(j + 2 * c) % nb] + 0.9 * B[(i + c) % nb] + 0.2 for c in range(C)]) for i, j in pairs] + [np.stack([sup2 - 0.2 * c for c in range(C)]), np.stack([np.roll(tern, 1, axis=0) * 0.5 + 0.25 + c for c in range(C)])])
        Pj, Rj = jnp.asarray(P), jnp.asarray(R)
        diff = P - R
        nst = len(P)
        scale2 = np.maximum(1.0, model_l2(diff, D, L, 1.0))

        def call(fn, *args, **kw):
            rec.count(states=nst, transitions=nst, traces=nst)
            return np.asarray((jax.vmap(lambda *a: fn(*a, domain_extent=L, **kw)))(*args))

        def callnoL(fn, *args):
            rec.count(states=nst, transitions=nst, traces=nst)
            return np.asarray((jax.vmap(fn))(*args))

        vals = {}
        for fam, (p, q) in FAM.items():
            for pre, mode in (("", "abs"), ("n", "norm"), ("s", "sym")):
                vals[pre + fam] = call(getattr(M, pre + fam), Pj, Rj)
            for pre in ("", "n"):
                vals["fourier_" + pre + fam] = call(getattr(M, "fourier_" + pre + fam), Pj, Rj)
                vals["H1_" + pre + fam] = call(getattr(M, "H1_" + pre + fam), Pj, Rj)
        tolrel = 1e4 * EPS * N**D

        def chk(name, got, want, sc=None, what=""):
            sc = np.maximum(1.0, np.abs(want)) if sc is None else sc
            r = np.abs(got - want) / (tolrel * sc)
            r = np.where(np.isfinite(r), r, np.inf)
            i = int(np.argmax(r))
            rec.close(r[i], 1.0, f"C16/{name}", what or "metric differs from its documented value", D=D, N=N, L=L, C=C, state=i,
                      got=float(got[i]), want=float(want[i]), pair=[list(basis[x][0]) + [basis[x][1]] for x in pairs[i]] if i < len(pairs) else "superposition/ternary")

        # ---- values: continuous L2 quantities via the spectrum; L1 via the Riemann sum it documents
        l2 = lambda d, q: model_l2(d, D, L, q)
        chk("value/MSE", vals["MSE"], l2(diff, 1.0))
        chk("value/RMSE", vals["RMSE"], l2(diff, 0.5))
        chk("value/MAE", vals["MAE"], model_l1_spatial(diff, D, L))
        # normalised / symmetric: per channel ratios
        def per_channel(d, q):
            c = spec(d, D)
            return ((L**D) * np.sum(np.abs(c) ** 2, axis=tuple(range(-D, 0)))) ** q

        def per_channel_l1(d):
            return (L / N) ** D * np.sum(np.abs(d), axis=tuple(range(-D, 0)))

        for fam, (p, q) in FAM.items():
            f = (lambda d: per_channel(d, q)) if p == 2.0 else per_channel_l1
            chk(f"value/n{fam}", vals["n" + fam], np.sum(f(diff) / f(R), axis=1))
            chk(f"value/s{fam}", vals["s" + fam], np.sum(2 * f(diff) / (f(P) + f(R)), axis=1))
        # ---- Parseval: spatial vs Fourier member of each L2 family
        for nm in ("MSE", "RMSE", "nMSE", "nRMSE"):
            chk(f"parseval/{nm}", vals["fourier_" + nm], vals[nm], what="Fourier and spatial versions of an L2 metric disagree (Parseval)")
        # fourier_MAE against its own definition: (L/N)^D * sum over the full spectrum of |c_k| * N^D ... = L^D/N^D * sum |u_hat| weights
        cabs = np.sum(np.abs(spec(diff, D)), axis=tuple(range(-D, 0)))
        chk("value/fourier_MAE", vals["fourier_MAE"], np.sum((L / N) ** D * cabs, axis=1),
            what="fourier_MAE differs from (L/N)^D * sum_k |c_k| over the full spectrum")
        # ---- resolution independence of the L2 family: same trigonometric polynomials on a finer grid
        N2 = N + 3
        X2 = ref.grid(D, N2, L)
        B2 = ref.basis_fields(D, N2, L, basis, X2)
        sel = list(range(0, len(pairs), max(1, len(pairs) // 60)))
        P2 = np.stack([np.stack([1.3 * B2[(pairs[t][0] + c) % nb] + 0.4 for c in range(C)]) for t in sel])
        R2 = np.stack([np.stack([0.8 * B2[(pairs[t][1] + 2 * c) % nb] + 0.9 * B2[(pairs[t][0] + c) % nb] + 0.2 for c in range(C)]) for t in sel])
        for nm in ("MSE", "RMSE", "nMSE", "sRMSE", "fourier_MSE", "fourier_nRMSE"):
            g2 = np.asarray((jax.vmap(lambda a, b: getattr(M, nm)(a, b, domain_extent=L)))(jnp.asarray(P2), jnp.asarray(R2)))
            rec.count(states=len(sel), transitions=len(sel), traces=len(sel))
            r = np.abs(g2 - vals[nm][sel]) / (tolrel * 8 * np.maximum(1.0, np.abs(vals[nm][sel])))
            i = int(np.argmax(r))
            rec.close(r[i], 1.0, f"C16/resolution_independent/{nm}", "a band-limited pair gives a different value at another resolution", D=D, N=N, N2=N2, L=L, C=C)
        # ---- L^D scaling: value(L) = L^(D*q) value(1) ; normalised / symmetric are free of L
        for nm, expo in (("MSE", D), ("MAE", D), ("RMSE", D / 2), ("nMSE", 0), ("sMAE", 0), ("fourier_MSE", D), ("fourier_MAE", D), ("fourier_nRMSE", 0)):
            g1 = np.asarray((jax.vmap(lambda a, b: getattr(M, nm)(a, b, domain_extent=1.0)))(Pj, Rj))
            rec.count(states=nst, transitions=nst, traces=nst)
            chk(f"domain_scaling/{nm}", vals[nm], g1 * L**expo, what="metric does not scale with L^D as documented")
        # ---- axioms
        for nm in ("MSE", "RMSE", "MAE", "nMSE", "sRMSE", "fourier_MSE", "fourier_MAE", "fourier_nMSE", "H1_MSE", "H1_RMSE"):
            z = call(getattr(M, nm), Rj, Rj)
            rec.close(float(np.max(np.abs(z))), 1e-12, f"C16/axiom/zero_on_equal/{nm}", "metric of identical inputs is not zero", D=D, N=N, C=C)
            nz = np.max(np.abs(diff).reshape(nst, -1), axis=1) > 1e-3
            rec.check(bool(np.all(vals[nm][nz] > 0)), f"C16/axiom/positive/{nm}", "metric of different inputs is not positive", D=D, N=N, C=C)
        for nm in ("MSE", "RMSE", "MAE", "sMSE", "sRMSE", "sMAE", "fourier_MSE", "fourier_RMSE", "fourier_MAE", "H1_MSE"):
            chk(f"axiom/symmetric/{nm}", call(getattr(M, nm), Rj, Pj), vals[nm], what="metric documented as symmetric is not")
        for nm, hom in (("MSE", 2), ("RMSE", 1), ("MAE", 1), ("nMSE", 0), ("nRMSE", 0), ("nMAE", 0), ("sMSE", 0), ("sMAE", 0), ("fourier_MSE", 2), ("fourier_MAE", 1),
                        ("fourier_nRMSE", 0), ("H1_MSE", 2), ("H1_nMSE", 0)):
            s = -2.5
            g_h = call(getattr(M, nm), Pj * s, Rj * s)
            fin = np.isfinite(vals[nm])  # normalised variants are undefined (0/0) where the reference (or its gradient) vanishes: outside the property
            chk(f"axiom/homogeneous/{nm}", np.where(fin, g_h, 0.0), np.where(fin, vals[nm] * abs(s) ** hom, 0.0), what="metric is not homogeneous / scale-free under a common scaling")
        # ---- channel additivity
        if C > 1:
            for nm in ("MSE", "RMSE", "MAE", "nMSE", "sRMSE", "fourier_MSE", "fourier_MAE", "fourier_nMSE", "H1_MSE", "H1_nRMSE"):
                tot = np.zeros(nst)
                for c in range(C):
                    tot += call(getattr(M, nm), Pj[:, c:c + 1], Rj[:, c:c + 1])
                fin = np.isfinite(vals[nm]) & np.isfinite(tot)
                rec.check(bool(np.all(np.isfinite(vals[nm]) == np.isfinite(tot))), f"C16/channel_additive_finite/{nm}", "finiteness differs between the joint and the per-channel evaluation", D=D, N=N, C=C)
                chk(f"channel_additive/{nm}", np.where(fin, vals[nm], 0.0), np.where(fin, tot, 0.0), what="metric does not split additively over channels")
        # ---- H1 = plain + metric of the spectral gradient (Nyquist-free states), gradient aggregate computed from the own spectrum:
        #      a_{c,d}(f) = int |d_d f_c|^2 (p=2)  or  (L/N)^D sum_k |kappa_d c_k| (p=1, the library's Fourier-L1 convention);  A_c(f) = sum_d a_{c,d}^q
        kfull = [np.fft.fftfreq(N, 1.0 / N) * (2 * np.pi / L)] * D
        kap = [kfull[d].reshape([N if a == d else 1 for a in range(D)]) for d in range(D)]

        def gradA(f, p, q):
            c = spec(f, D)
            out = np.zeros(f.shape[:2])
            for d in range(D):
                if p == 2.0:
                    a_cd = (L**D) * np.sum(np.abs(kap[d] * c) ** 2, axis=tuple(range(-D, 0)))
                else:
                    a_cd = ((L / N) ** D) * np.sum(np.abs(kap[d] * c), axis=tuple(range(-D, 0)))
                out += a_cd**q
            return out

        nyqfree = np.concatenate([np.ones(nst - 1, bool), [False]])  # the ternary state has Nyquist content
        for fam, (p, q) in FAM.items():
            Ad, Ar = gradA(diff, p, q), gradA(R, p, q)
            chk(f"sobolev/H1_{fam}", np.where(nyqfree, vals["H1_" + fam], 0.0), np.where(nyqfree, vals["fourier_" + fam] + np.sum(Ad, axis=1), 0.0),
                what="H1 metric is not the plain metric plus the metric of the spectral gradient")
            okn = nyqfree & np.all(Ar > 1e-9, axis=1)
            with np.errstate(divide="ignore", invalid="ignore"):
                wantn = vals["fourier_n" + fam] + np.sum(Ad / Ar, axis=1)
            chk(f"sobolev/H1_n{fam}", np.where(okn, vals["H1_n" + fam], 0.0), np.where(okn, wantn, 0.0),
                what="normalised H1 metric is not the plain normalised metric plus the gradient aggregate of the difference over that of the reference")
        # ---- correlation
        cor = callnoL(M.correlation, Pj, Rj)
        rec.check(bool(np.all(cor <= 1 + 1e-12) and np.all(cor >= -1 - 1e-12)), "C16/correlation/range", "correlation outside [-1, 1]", D=D, N=N, C=C)
        want = np.mean(np.sum((P * R).reshape(nst, C, -1), axis=2) / (np.linalg.norm(P.reshape(nst, C, -1), axis=2) * np.linalg.norm(R.reshape(nst, C, -1), axis=2)), axis=1)
        chk("correlation/value", cor, want, what="correlation is not the channel mean of the cosine similarity")
        chk("correlation/plus_one", callnoL(M.correlation, Pj, Pj * 3.0), np.ones(nst), what="correlation of positively proportional fields is not +1")
        chk("correlation/minus_one", callnoL(M.correlation, Pj, Pj * -0.5), -np.ones(nst), what="correlation of negatively proportional fields is not -1")
        for k in ("MSE", "nRMSE", "fourier_MAE", "H1_MSE"):
            rec.outcome_array(vals[k][:: max(1, nst // 16)])
        # ---- mean_metric
        mm = float(M.mean_metric(M.MSE, Pj, Rj, domain_extent=L))
        rec.count(states=1, transitions=1, traces=1)
        rec.close(abs(mm - float(np.mean(vals["MSE"]))), tolrel * max(1.0, abs(mm)), "C16/mean_metric", "mean_metric is not the batch mean of the metric", D=D, N=N, C=C)
    # ---- band limits: all 0 <= low <= high <= N//2 and all partitions into consecutive bands (single channel, a few rich states)
    KI = kinf(D, N)
    rich = np.stack([sup1[None], (sup1 - sup2)[None], (tern + 0.3)[None]])
    richR = np.stack([sup2[None] * 0.5, np.zeros_like(sup1)[None], (np.roll(tern, 2, axis=-1) * 0.4)[None]])
    dd = rich - richR
    cs = spec(dd, D)[:, 0]
    half = N // 2
    for low, high in itertools.combinations_with_replacement(range(0, half + 1), 2):
        band = (KI >= low) & (KI <= high)
        want_mse = (L**D) * np.sum(np.where(band, np.abs(cs) ** 2, 0.0), axis=tuple(range(-D, 0)))
        want_mae = ((L / N) ** D) * np.sum(np.where(band, np.abs(cs), 0.0), axis=tuple(range(-D, 0)))
        for nm, want in (("fourier_MSE", want_mse), ("fourier_MAE", want_mae), ("fourier_RMSE", np.sqrt(want_mse))):
            got = np.asarray(jax.vmap(lambda a, b: getattr(M, nm)(a, b, domain_extent=L, low=low, high=high))(jnp.asarray(rich), jnp.asarray(richR)))
            rec.count(states=len(rich), transitions=len(rich), traces=len(rich))
            r = np.abs(got - want) / (1e4 * EPS * N**D * np.maximum(1.0, want))
            i = int(np.argmax(r))
            rec.close(r[i], 1.0, f"C16/band/{nm}", "band-limited metric differs from the sum over modes with low <= |k|_inf <= high", D=D, N=N, L=L, low=low, high=high,
                      got=float(got[i]), want=float(want[i]))
        rec.dim("band", f"{low}-{high}")
    # every partition of [0, N//2] into consecutive bands sums to the unrestricted value (outer exponent 1)
    tot = {nm: np.asarray(jax.vmap(lambda a, b: getattr(M, nm)(a, b, domain_extent=L))(jnp.asarray(rich), jnp.asarray(richR))) for nm in ("fourier_MSE", "fourier_MAE")}
    cache = {}
    for cuts in itertools.product((0, 1), repeat=half):
        edges = [0] + [i + 1 for i, cbit in enumerate(cuts) if cbit and i + 1 <= half] + [half + 1]
        edges = sorted(set(edges))
        bands = [(edges[i], edges[i + 1] - 1) for i in range(len(edges) - 1)]
        for nm in ("fourier_MSE", "fourier_MAE"):
            s = np.zeros(len(rich))
            for (lo, hi) in bands:
                if (nm, lo, hi) not in cache:
                    cache[(nm, lo, hi)] = np.asarray(jax.vmap(lambda a, b: getattr(M, nm)(a, b, domain_extent=L, low=lo, high=hi))(jnp.asarray(rich), jnp.asarray(richR)))
                s += cache[(nm, lo, hi)]
            rec.count(states=len(rich), transitions=len(bands), traces=1)
            rec.close(float(np.max(np.abs(s - tot[nm]) / np.maximum(1.0, tot[nm]))), 1e4 * EPS * N**D, f"C16/band_additive/{nm}",
                      "a partition of [0, N//2] into consecutive bands does not sum to the unrestricted metric", D=D, N=N, L=L, bands=bands)
    norms_section(u, rec, M, D, N, L, sup1, sup2, tern, KI)
    rec.sample({"D": D, "N": N, "L": L, "pairs": len(pairs), "bands": (half + 1) * (half + 2) // 2, "partitions": 2**half,
                "example_pair": [list(basis[pairs[len(pairs) // 2][0]][0]), list(basis[pairs[len(pairs) // 2][1]][0])]})


# exponent / mode / band / derivative alphabets of the general norm functions (full product, every combination is one transition)
SP_P = (1.0, 2.0, 3.0, 0.5)
SP_Q = (None, 1.0, 0.5, 2.0)
FO_P = (1.0, 2.0, 3.0)
FO_Q = (None, 1.0, 0.5)
FO_S = (None, 1, 2, 3)


def norms_section(u, rec, M, D, N, L, sup1, sup2, tern, KI):
    """spatial_aggregator / spatial_norm / fourier_aggregator / fourier_norm with every (p, q, mode, band, derivative order) combination against the
    documented formulas: spatial ((L/N)^D sum |u_i|^p)^q ; Fourier ((L/N)^D sum_{k in band, full spectrum} |(i kappa_d)^s u_hat_k|^p / N^D)^q summed over d.
    p = 2 reproduces the continuous L2 quantity (Parseval), p = 1 the convention fourier_MAE documents."""
    import jax.numpy as jnp

    half = N // 2
    ax = tuple(range(-D, 0))
    P = np.stack([sup1, 0.6 * tern + 0.2, sup2 + 0.3])
    R = np.stack([sup2 * 0.5 + 0.1, np.roll(tern, 1, axis=-1) * 0.5 - 0.3, 0.4 * sup1 - 0.2])
    Pj, Rj = jnp.asarray(P), jnp.asarray(R)
    tol = 1e4 * EPS * N**D

    def cmp(sig, got, want, **kw):
        got, want = float(got), float(want)
        if not np.isfinite(want):
            return
        rec.count(states=1, transitions=1, traces=1)
        rec.close(abs(got - want) / max(1.0, abs(want)) if np.isfinite(got) else np.inf, tol, sig, "general norm / aggregator differs from its documented formula",
                  D=D, N=N, L=L, got=got, want=want, **kw)

    def sp_agg(f, p, q):
        q = 1.0 / p if q is None else q
        return ((L / N) ** D * np.sum(np.abs(f) ** p, axis=ax)) ** q

    for p, q in itertools.product(SP_P, SP_Q):
        rec.dim("sp_pq", f"{p}/{q}")
        cmp("C16/norms/spatial_aggregator", M.spatial_aggregator(Pj[0], domain_extent=L, inner_exponent=p, outer_exponent=q), sp_agg(P[0], p, q), p=p, q=q)
        cmp("C16/norms/spatial_aggregator_explicit_dims", M.spatial_aggregator(Pj[1], num_spatial_dims=D, num_points=N, domain_extent=L, inner_exponent=p, outer_exponent=q),
            sp_agg(P[1], p, q), p=p, q=q)
        d, a, b = sp_agg(P - R, p, q), sp_agg(P, p, q), sp_agg(R, p, q)
        with np.errstate(divide="ignore", invalid="ignore"):
            wants = {"absolute": np.sum(d), "normalized": np.sum(d / b), "symmetric": np.sum(2 * d / (a + b))}
        for mode, want in wants.items():
            cmp(f"C16/norms/spatial_norm/{mode}", M.spatial_norm(Pj, Rj, mode=mode, domain_extent=L, inner_exponent=p, outer_exponent=q), want, p=p, q=q, mode=mode)
        cmp("C16/norms/spatial_norm/no_ref", M.spatial_norm(Pj, domain_extent=L, inner_exponent=p, outer_exponent=q), np.sum(a), p=p, q=q)

    kfull = np.fft.fftfreq(N, 1.0 / N) * (2 * np.pi / L)
    kap = [kfull.reshape([N if a_ == d_ else 1 for a_ in range(D)]) for d_ in range(D)]

    def fo_agg(f, p, q, low, high, s):
        q = 1.0 / p if q is None else q
        uh = np.fft.fftn(f, axes=ax)
        uh = np.where(np.abs(uh) < 1e-5, 0.0, uh)
        lo = 0 if low is None else low
        hi = half + 1 if high is None else high
        band = (KI >= lo) & (KI <= hi)
        uh = np.where(band, uh, 0.0)
        comps = [uh] if s is None else [uh * (1j * kap[d_]) ** s for d_ in range(D)]
        return sum(((L / N) ** D * np.sum(np.abs(c) ** p, axis=ax) / N**D) ** q for c in comps)

    bands = [(None, None), (1, None), (None, 1), (0, 0)] + ([(1, 2), (2, half)] if half >= 2 else [])
    for p, q, s, (low, high) in itertools.product(FO_P, FO_Q, FO_S, bands):
        rec.dim("fo_pqs", f"{p}/{q}/{s}")
        kw = dict(domain_extent=L, inner_exponent=p, outer_exponent=q, low=low, high=high, derivative_order=s)
        info = dict(p=p, q=q, s=s, low=low, high=high)
        cmp("C16/norms/fourier_aggregator", M.fourier_aggregator(Pj[0], **kw), fo_agg(P[0], p, q, low, high, s), **info)
        d, b = fo_agg(P - R, p, q, low, high, s), fo_agg(R, p, q, low, high, s)
        cmp("C16/norms/fourier_norm/absolute", M.fourier_norm(Pj, Rj, mode="absolute", **kw), np.sum(d), **info)
        if np.all(b > 1e-9):
            cmp("C16/norms/fourier_norm/normalized", M.fourier_norm(Pj, Rj, mode="normalized", **kw), np.sum(d / b), **info)
        if (low, high) == (None, None):
            cmp("C16/norms/fourier_norm/no_ref", M.fourier_norm(Pj, **kw), np.sum(fo_agg(P, p, q, low, high, s)), **info)
            if p == 2.0 and s is None:
                cmp("C16/norms/parseval", M.fourier_norm(Pj, Rj, **kw), M.spatial_norm(Pj, Rj, domain_extent=L, inner_exponent=p, outer_exponent=q), **info)
    cmp("C16/norms/fourier_aggregator_explicit_dims", M.fourier_aggregator(Pj[2], num_spatial_dims=D, num_points=N, domain_extent=L, inner_exponent=2.0, derivative_order=1),
        fo_agg(P[2], 2.0, None, None, None, 1))
    # the named Fourier / Sobolev metrics with band limits and derivative orders (they are documented as the (p, q, mode) members of the family)
    NAMED = {"MAE": (1.0, 1.0, "absolute"), "nMAE": (1.0, 1.0, "normalized"), "MSE": (2.0, 1.0, "absolute"), "nMSE": (2.0, 1.0, "normalized"),
             "RMSE": (2.0, 0.5, "absolute"), "nRMSE": (2.0, 0.5, "normalized")}

    def named_want(p, q, mode, low, high, s):
        d, b = fo_agg(P - R, p, q, low, high, s), fo_agg(R, p, q, low, high, s)
        if mode == "absolute":
            return np.sum(d)
        return np.sum(d / b) if np.all(b > 1e-9) else np.nan

    for (nm, (p, q, mode)), (low, high), s in itertools.product(NAMED.items(), bands, (None, 1, 2)):
        rec.dim("named", f"{nm}/{s}")
        cmp(f"C16/norms/named/fourier_{nm}", getattr(M, "fourier_" + nm)(Pj, Rj, domain_extent=L, low=low, high=high, derivative_order=s),
            named_want(p, q, mode, low, high, s), low=low, high=high, s=s)
        if s is None:
            with np.errstate(invalid="ignore"):
                want_h1 = named_want(p, q, mode, low, high, None) + named_want(p, q, mode, low, high, 1)
            cmp(f"C16/norms/named/H1_{nm}", getattr(M, "H1_" + nm)(Pj, Rj, domain_extent=L, low=low, high=high), want_h1, low=low, high=high)
    # the normalised L1 members of the Fourier family (values; the L2 members are bound to the spatial ones by Parseval above)
    for nm, pre in (("fourier_nMAE", "n"),):
        d, b = fo_agg(P - R, 1.0, 1.0, None, None, None), fo_agg(R, 1.0, 1.0, None, None, None)
        cmp(f"C16/value/{nm}", getattr(M, nm)(Pj, Rj, domain_extent=L), np.sum(d / b))

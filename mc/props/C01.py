"""
C01 - linear steppers advance band-limited states by the exact PDE solution.

Lift L: a linear stepper is determined by its action on a basis.  For every configuration
(class variant, D, N, L, dt) the harness applies the real stepper to EVERY real Fourier basis function
below Nyquist (cos and sin of one representative per +-k pair) and to a superposition state, and
compares with the closed-form solution of the documented PDE built from an independently written
symbol lambda(k) (mc.ref).  In Fourier space `step_fourier` on an all-ones spectrum must equal
exp(dt*lambda(k)) on every stored mode below Nyquist.  Histories: BFS over {S_dt, S_2dt, S_3dt, S_-dt}
to depth 3 with key = elapsed time; invariant = reference at that time; diamonds must merge.
"""

import itertools
import math

import numpy as np

from mc import ref
from mc.core import bfs

EPS = 2.3e-16
RULE = ("every (class variant, D, N, L, dt) x every real Fourier basis function below Nyquist (+ superposition) is one state; "
        "one stepper call is one transition; distinct_nontrivial = distinct observed output fields / spectra")
ASSUMPTIONS = [
    "lift L: the stepper is a linear map (FFT, per-mode multiplier, inverse FFT); additionally probed with the superposition state",
    "bounds on N, and finite lattices of L, dt and coefficient values (see bounds)",
    "tolerance = 2e3*eps*(1+M*|t|)*e^G with M the sum of |terms| of the symbol and G = max over ALL stored modes of Re(lambda*dt); "
    "configurations with G > 3 (backward heat equation: rounding noise in other modes is amplified) are skipped and listed under skipped_amplifying",
]

LS = [1.0, 2 * math.pi, 0.37, 10.0]
DTS = [1e-3, 0.1, 1.0, 1e3, 1e6, -0.1]


def bounds(tier):
    if tier == "quick":
        return {"N": {1: list(range(3, 13)), 2: list(range(3, 8)), 3: [3, 4, 5]}, "L": LS, "dt": DTS, "history_depth": 3}
    return {"N": {1: list(range(3, 34)), 2: list(range(3, 13)), 3: list(range(3, 9))}, "L": LS, "dt": DTS, "history_depth": 3}


# ----------------------------------------------------------------------------- variants
# each: name -> (dims it applies to, builder(ex, jnp, D, N, L, dt) -> stepper, symbol(k, D, N, L) -> complex, effective (L, dt) override)

VEC_C = [0.7, -1.3, 0.4]
VEC_NU = [0.05, 0.011, 0.2]
SPD = {2: [[0.05, 0.02], [0.02, 0.03]], 3: [[0.05, 0.02, -0.01], [0.02, 0.03, 0.005], [-0.01, 0.005, 0.04]]}
VEC_XI = [0.3, -0.8, 0.1]
GEN = {
    "g1": (-0.3,),
    "g2": (0.0, -0.5),
    "g3": (0.0, 0.0, 0.02),
    "g5": (-0.1, -0.4, 0.03, 0.2, -0.001),
    "g7": (0.0, 0.3, 0.01, 0.0, -1e-4, 2e-5, 1e-7),
}
NORM = {"n3": (0.0, -0.5, 0.01), "n5": (-0.05, 0.2, 0.003, 1e-4, -1e-6)}
DIFF = {"d2": (0.0, -2.0), "d3": (0.0, 1.5, 3.0), "d5": (-0.1, 0.5, 2.0, 1.0, -4.0)}


def difficulty_to_normalized(g, D, N):
    return tuple(gj if j == 0 else gj / (N**j * 2 ** (j - 1) * D) for j, gj in enumerate(g))


def variants():
    V = {}

    def add(name, dims, build, sym, fixed=False, dissipative=True):
        V[name] = dict(dims=dims, build=build, sym=sym, fixed=fixed, dissipative=dissipative)

    add("Advection/scalar", (1, 2, 3), lambda ex, jnp, D, N, L, dt: ex.stepper.Advection(D, L, N, dt, velocity=0.7),
        lambda k, D, N, L: ref.sym_advection(k, L, [0.7] * D), dissipative=False)
    add("Advection/vector", (2, 3), lambda ex, jnp, D, N, L, dt: ex.stepper.Advection(D, L, N, dt, velocity=jnp.array(VEC_C[:D])),
        lambda k, D, N, L: ref.sym_advection(k, L, VEC_C[:D]), dissipative=False)
    add("Diffusion/scalar", (1, 2, 3), lambda ex, jnp, D, N, L, dt: ex.stepper.Diffusion(D, L, N, dt, diffusivity=0.05),
        lambda k, D, N, L: ref.sym_diffusion(k, L, 0.05 * np.eye(D)))
    add("Diffusion/vector", (2, 3), lambda ex, jnp, D, N, L, dt: ex.stepper.Diffusion(D, L, N, dt, diffusivity=jnp.array(VEC_NU[:D])),
        lambda k, D, N, L: ref.sym_diffusion(k, L, np.diag(VEC_NU[:D])))
    add("Diffusion/matrix", (2, 3), lambda ex, jnp, D, N, L, dt: ex.stepper.Diffusion(D, L, N, dt, diffusivity=jnp.array(SPD[D])),
        lambda k, D, N, L: ref.sym_diffusion(k, L, SPD[D]))
    add("AdvectionDiffusion/scalar", (1, 2, 3),
        lambda ex, jnp, D, N, L, dt: ex.stepper.AdvectionDiffusion(D, L, N, dt, velocity=-0.6, diffusivity=0.02),
        lambda k, D, N, L: ref.sym_sum(ref.sym_advection(k, L, [-0.6] * D), ref.sym_diffusion(k, L, 0.02 * np.eye(D))))
    add("AdvectionDiffusion/vector_matrix", (2, 3),
        lambda ex, jnp, D, N, L, dt: ex.stepper.AdvectionDiffusion(D, L, N, dt, velocity=jnp.array(VEC_C[:D]), diffusivity=jnp.array(SPD[D])),
        lambda k, D, N, L: ref.sym_sum(ref.sym_advection(k, L, VEC_C[:D]), ref.sym_diffusion(k, L, SPD[D])))
    add("AdvectionDiffusion/scalar_vector", (2, 3),
        lambda ex, jnp, D, N, L, dt: ex.stepper.AdvectionDiffusion(D, L, N, dt, velocity=0.9, diffusivity=jnp.array(VEC_NU[:D])),
        lambda k, D, N, L: ref.sym_sum(ref.sym_advection(k, L, [0.9] * D), ref.sym_diffusion(k, L, np.diag(VEC_NU[:D]))))
    for mixed in (False, True):
        add(f"Dispersion/scalar/mixed={mixed}", (1, 2, 3),
            lambda ex, jnp, D, N, L, dt, m=mixed: ex.stepper.Dispersion(D, L, N, dt, dispersivity=0.4, advect_on_diffusion=m),
            lambda k, D, N, L, m=mixed: ref.sym_dispersion(k, L, [0.4] * D, m), dissipative=False)
        add(f"Dispersion/vector/mixed={mixed}", (2, 3),
            lambda ex, jnp, D, N, L, dt, m=mixed: ex.stepper.Dispersion(D, L, N, dt, dispersivity=jnp.array(VEC_XI[:D]), advect_on_diffusion=m),
            lambda k, D, N, L, m=mixed: ref.sym_dispersion(k, L, VEC_XI[:D], m), dissipative=False)
        add(f"HyperDiffusion/mixed={mixed}", (1, 2, 3),
            lambda ex, jnp, D, N, L, dt, m=mixed: ex.stepper.HyperDiffusion(D, L, N, dt, hyper_diffusivity=3e-3, diffuse_on_diffuse=m),
            lambda k, D, N, L, m=mixed: ref.sym_hyper(k, L, 3e-3, m))
    for nm, co in GEN.items():
        add(f"GeneralLinear/{nm}", (1, 2, 3),
            lambda ex, jnp, D, N, L, dt, co=co: ex.stepper.generic.GeneralLinearStepper(D, L, N, dt, linear_coefficients=co),
            lambda k, D, N, L, co=co: ref.sym_general(k, L, co))
    for nm, co in NORM.items():
        add(f"NormalizedLinear/{nm}", (1, 2, 3),
            lambda ex, jnp, D, N, L, dt, co=co: ex.stepper.generic.NormalizedLinearStepper(D, N, normalized_linear_coefficients=co),
            lambda k, D, N, L, co=co: ref.sym_general(k, 1.0, co), fixed=True)
    for nm, co in DIFF.items():
        add(f"DifficultyLinear/{nm}", (1, 2, 3),
            lambda ex, jnp, D, N, L, dt, co=co: ex.stepper.generic.DifficultyLinearStepper(D, N, linear_difficulties=co),
            lambda k, D, N, L, co=co: ref.sym_general(k, 1.0, difficulty_to_normalized(co, D, N)), fixed=True)
    for order, dif in ((1, -2.0), (2, 3.0), (3, 1.5), (4, -5.0)):
        co = (0.0,) * order + (dif,)
        add(f"DifficultyLinearSimple/o{order}", (1, 2, 3),
            lambda ex, jnp, D, N, L, dt, o=order, d=dif: ex.stepper.generic.DifficultyLinearStepperSimple(D, N, difficulty=d, order=o),
            lambda k, D, N, L, co=co: ref.sym_general(k, 1.0, difficulty_to_normalized(co, D, N)), fixed=True)
    add("DiffultyLinearSimple_alias/o2", (1, 2),
        lambda ex, jnp, D, N, L, dt: ex.stepper.generic.DiffultyLinearStepperSimple(D, N, difficulty=3.0, order=2),
        lambda k, D, N, L: ref.sym_general(k, 1.0, difficulty_to_normalized((0.0, 0.0, 3.0), D, N)), fixed=True)
    return V


VAR = variants()


def units(tier, seed):
    b = bounds(tier)
    us = []
    for name, v in VAR.items():
        for D in v["dims"]:
            Ns = b["N"][D]
            # chunk N so that units have comparable cost
            chunk = {1: 6, 2: 3, 3: 1}[D] if tier == "thorough" else {1: 10, 2: 5, 3: 1}[D]
            for i in range(0, len(Ns), chunk):
                nn = Ns[i:i + chunk]
                cost = sum(n**D * (n**D) for n in nn) * (1 if v["fixed"] else len(LS) * len(DTS))
                us.append({"name": f"{name}/D{D}/N{nn[0]}-{nn[-1]}", "kind": "lin", "variant": name, "D": D, "Ns": nn, "cost": cost})
    for D in (1, 2, 3):
        Ns = b["N"][D]
        chunk = {1: 10, 2: 4, 3: 2}[D]
        for i in range(0, len(Ns), chunk):
            nn = Ns[i:i + chunk]
            us.append({"name": f"Wave/D{D}/N{nn[0]}-{nn[-1]}", "kind": "wave", "D": D, "Ns": nn,
                       "cost": sum(4 * n ** (2 * D) for n in nn) * len(LS) * len(DTS)})
    # histories
    for name in ["Advection/scalar", "Diffusion/scalar", "AdvectionDiffusion/scalar", "Dispersion/scalar/mixed=False",
                 "HyperDiffusion/mixed=False", "GeneralLinear/g5", "Advection/vector", "Diffusion/matrix", "Dispersion/vector/mixed=True"]:
        for D in VAR[name]["dims"]:
            us.append({"name": f"hist/{name}/D{D}", "kind": "hist", "variant": name, "D": D, "depth": b["history_depth"], "cost": 5e4})
    for D in (1, 2, 3):
        us.append({"name": f"hist/Wave/D{D}", "kind": "histwave", "D": D, "depth": b["history_depth"], "cost": 5e4})
    return us


# ----------------------------------------------------------------------------- scalar linear steppers


def _tol(lam_t, amp=1.0):
    return 2e3 * EPS * (1.0 + abs(lam_t)) * amp


def unit_lin(u, rec):
    import jax
    import jax.numpy as jnp

    import exponax as ex

    name, D = u["variant"], u["D"]
    v = VAR[name]
    rec.dim("variant", name)
    rec.dim("D", D)
    for N in u["Ns"]:
        rec.dim("N", N)
        basis = ref.real_basis(D, N, nyquist=False)
        nb = len(basis)
        w = ref.weights(nb, u["seed"])
        W = ref.rfft_wavenumbers(D, N)
        nyq = np.zeros(W.shape[1:], dtype=bool)
        if N % 2 == 0:
            for d in range(D):
                nyq |= np.abs(W[d]) == N // 2
        combos = [(1.0, 1.0)] if v["fixed"] else list(itertools.product(LS, DTS))
        for L, dt in combos:
            rec.dim("L", L)
            rec.dim("dt", dt)
            X = ref.grid(D, N, L)
            U = ref.basis_fields(D, N, L, basis, X)
            Usup = np.tensordot(w, U, axes=1)
            stepper = v["build"](ex, jnp, D, N, L, dt)
            if v["fixed"]:
                L, dt = 1.0, 1.0
            # symbol on every stored mode (Nyquist rows included: their growth bounds the amplification of rounding noise)
            lamW = np.empty(W.shape[1:], dtype=complex)
            magW = np.empty(W.shape[1:])
            for idx in np.ndindex(*W.shape[1:]):
                lamW[idx], magW[idx] = v["sym"](tuple(int(W[d][idx]) for d in range(D)), D, N, L)
            ltW = lamW * dt
            G = float(np.max(ltW.real))
            if not np.isfinite(G) or G > 3.0:
                rec.dim("skipped_amplifying", f"{name}|L={L}|dt={dt}")
                continue  # ill-conditioned: rounding noise in other modes is amplified by e^G (backward heat equation etc.)
            amp_noise = math.exp(max(G, 0.0))
            sm = [v["sym"](k, D, N, L) for k, _ in basis]
            lam = np.array([a for a, _ in sm], dtype=complex)
            mag = np.array([b for _, b in sm])
            lt = lam * dt
            expo = np.exp(lt.real)
            EXP = np.empty_like(U)
            for i, (k, cs) in enumerate(basis):
                EXP[i] = ref.mode_field(k, X, L, expo[i], (0.0 if cs == "c" else -np.pi / 2) + lt[i].imag)
            allin = jnp.asarray(np.concatenate([U, Usup[None]])[:, None])
            got = np.asarray(jax.vmap(stepper)(allin))[:, 0]
            rec.count(states=nb + 1, transitions=nb + 1, traces=nb + 1)
            err = np.max(np.abs(got[:nb] - EXP).reshape(nb, -1), axis=1)
            tol = 2e3 * EPS * (1.0 + mag * abs(dt)) * amp_noise
            for i in np.argsort(-err / tol):
                good = rec.close(err[i], tol[i], f"C01/{name}/mode",
                                 "stepper(mode) differs from the exact solution of the documented PDE",
                                 D=D, N=N, L=L, dt=dt, k=basis[i][0], cs=basis[i][1], lam=complex(lam[i]))
                if not good:
                    break
            expsup = np.tensordot(w, EXP, axes=1)
            rec.close(np.max(np.abs(got[nb] - expsup)), float(np.sum(np.abs(w) * tol)), f"C01/{name}/superposition",
                      "stepper(superposition) differs from the superposition of exact solutions", D=D, N=N, L=L, dt=dt)
            rec.outcome_array(got[: min(nb, 4)])
            # Fourier space: all-ones spectrum
            ones = jnp.ones((1,) + W.shape[1:], dtype=complex)
            gh = np.asarray(stepper.step_fourier(ones))[0]
            want = np.exp(ltW)
            e = np.abs(gh - want) / (2e3 * EPS * (1 + magW * abs(dt)) * np.maximum(1.0, np.abs(want)))
            e = np.where(nyq, 0.0, e)
            rec.count(states=int((~nyq).sum()), transitions=1, traces=1)
            j = np.unravel_index(np.argmax(e), e.shape)
            rec.close(e[j], 1.0, f"C01/{name}/step_fourier", "step_fourier(ones) differs from exp(dt*symbol(k))",
                      D=D, N=N, L=L, dt=dt, index=list(map(int, j)), k=[int(W[d][j]) for d in range(D)], got=complex(gh[j]), want=complex(want[j]))
        if N == u["Ns"][0]:
            rec.sample({"variant": name, "D": D, "N": N, "basis_size": nb, "first_modes": [list(b[0]) + [b[1]] for b in basis[:4]],
                        "L": LS, "dt": DTS})


# ----------------------------------------------------------------------------- wave


def wave_exact(h0, v0, om, t):
    """per-mode amplitudes; om may be 0"""
    if om == 0:
        return h0 + t * v0, v0
    return h0 * math.cos(om * t) + v0 * math.sin(om * t) / om, -om * h0 * math.sin(om * t) + v0 * math.cos(om * t)


def unit_wave(u, rec):
    import jax
    import jax.numpy as jnp

    import exponax as ex

    D = u["D"]
    c = 1.3
    rec.dim("variant", "Wave")
    for N in u["Ns"]:
        rec.dim("N", N)
        basis = ref.real_basis(D, N, nyquist=False)
        nb = len(basis)
        w = ref.weights(2 * nb, u["seed"])
        for L, dt in itertools.product(LS, DTS):
            X = ref.grid(D, N, L)
            B = ref.basis_fields(D, N, L, basis, X)
            stepper = ex.stepper.Wave(D, L, N, dt, speed_of_sound=c)
            om = np.array([c * np.linalg.norm(ref.kappa(k, L)) for k, _ in basis])
            Z = np.zeros_like(B)
            inp = np.concatenate([np.stack([B, Z], axis=1), np.stack([Z, B], axis=1)])  # (2nb, 2, N..)
            sup = np.tensordot(w, inp, axes=1)
            got = np.asarray(jax.vmap(stepper)(jnp.asarray(np.concatenate([inp, sup[None]]))))
            rec.count(states=2 * nb + 1, transitions=2 * nb + 1, traces=2 * nb + 1)
            EXP = np.empty_like(inp)
            for i in range(nb):
                hh, vh = wave_exact(1.0, 0.0, om[i], dt)
                hv, vv = wave_exact(0.0, 1.0, om[i], dt)
                EXP[i, 0], EXP[i, 1] = hh * B[i], vh * B[i]
                EXP[nb + i, 0], EXP[nb + i, 1] = hv * B[i], vv * B[i]
            for i in range(2 * nb):
                o = om[i % nb]
                amp = max(1.0, o, (1 / o if o > 0 else abs(dt)))
                good = rec.close(np.max(np.abs(got[i] - EXP[i])), _tol(o * dt, amp), "C01/Wave/mode",
                                 "Wave stepper differs from the exact 2x2 propagator", D=D, N=N, L=L, dt=dt, k=basis[i % nb][0],
                                 cs=basis[i % nb][1], channel="h" if i < nb else "v")
                if not good:
                    break
            expsup = np.tensordot(w, EXP, axes=1)
            scale = float(np.sum(np.abs(w) * np.array([np.max(np.abs(EXP[i])) for i in range(2 * nb)])))
            rec.close(np.max(np.abs(got[2 * nb] - expsup)), 2e3 * EPS * (1 + np.max(om) * abs(dt)) * max(scale, 1.0), "C01/Wave/superposition",
                      "Wave stepper on a superposition differs from the superposed exact solutions", D=D, N=N, L=L, dt=dt)
            rec.outcome_array(got[:4])
            # Fourier space, ones in h / ones in v
            W = ref.rfft_wavenumbers(D, N)
            nyq = np.zeros(W.shape[1:], dtype=bool)
            if N % 2 == 0:
                for d in range(D):
                    nyq |= np.abs(W[d]) == N // 2
            omW = c * (2 * np.pi / L) * np.sqrt(np.sum(W.astype(float) ** 2, axis=0))
            for ch in (0, 1):
                z = np.zeros((2,) + W.shape[1:], dtype=complex)
                z[ch] = 1.0
                gh = np.asarray(stepper.step_fourier(jnp.asarray(z)))
                want = np.empty_like(gh)
                for idx in np.ndindex(*W.shape[1:]):
                    want[(0,) + idx], want[(1,) + idx] = wave_exact(1.0 - ch, float(ch), omW[idx], dt)
                amp = np.maximum(1.0, np.maximum(omW, np.where(omW > 0, 1 / np.maximum(omW, 1e-300), abs(dt))))
                e = np.max(np.abs(gh - want), axis=0) / (2e3 * EPS * (1 + omW * abs(dt)) * amp)
                e = np.where(nyq, 0.0, e)
                j = np.unravel_index(np.argmax(e), e.shape)
                rec.count(states=int((~nyq).sum()), transitions=1, traces=1)
                rec.close(e[j], 1.0, "C01/Wave/step_fourier", "Wave.step_fourier differs from the exact propagator per mode",
                          D=D, N=N, L=L, dt=dt, channel=ch, k=[int(W[d][j]) for d in range(D)])
        rec.sample({"variant": "Wave", "D": D, "N": N, "basis_size": 2 * nb})


# ----------------------------------------------------------------------------- histories (BFS)

HIST_OPS = ["S_dt", "S_2dt", "S_3dt", "S_-dt"]
OP_T = {"S_dt": 1, "S_2dt": 2, "S_3dt": 3, "S_-dt": -1}


def unit_hist(u, rec):
    import jax.numpy as jnp

    import exponax as ex

    name, D = u["variant"], u["D"]
    v = VAR[name]
    dt0 = 0.1
    for N in ({1: (7, 8), 2: (5, 6), 3: (4, 5)}[D]):
        for L in (1.0, 2 * math.pi):
            basis = ref.real_basis(D, N, nyquist=False)
            X = ref.grid(D, N, L)
            U = ref.basis_fields(D, N, L, basis, X)
            w = ref.weights(len(basis), u["seed"] + 3)
            sm = [v["sym"](k, D, N, L) for k, _ in basis]
            lam = np.array([a for a, _ in sm], dtype=complex)
            mag = np.array([b for _, b in sm])
            Wh = ref.rfft_wavenumbers(D, N)
            Gmax = max(0.0, max(float(v["sym"](tuple(int(Wh[d][idx]) for d in range(D)), D, N, L)[0].real) for idx in np.ndindex(*Wh.shape[1:])))
            Gneg = max(0.0, max(-float(v["sym"](tuple(int(Wh[d][idx]) for d in range(D)), D, N, L)[0].real) for idx in np.ndindex(*Wh.shape[1:])))
            steppers = {op: v["build"](ex, jnp, D, N, L, dt0 * m) for op, m in OP_T.items()}

            def exact(m):
                t = m * dt0
                out = np.zeros((N,) * D)
                for i, (k, cs) in enumerate(basis):
                    out += w[i] * ref.mode_field(k, X, L, math.exp(lam[i].real * t), (0.0 if cs == "c" else -np.pi / 2) + lam[i].imag * t)
                return out

            u0 = np.tensordot(w, U, axes=1)
            scale = float(np.sum(np.abs(w)))

            def step(op, key, iv, mv):
                m = OP_T[op]
                if m < 0 and v["dissipative"]:
                    return None  # the property states reversibility for the non-dissipative equations only
                nk = key + m
                if abs(nk) > 9:
                    return None
                return nk, steppers[op](iv), nk

            def inv(key, iv, mv, trace):
                e = np.max(np.abs(np.asarray(iv)[0] - exact(key)))
                growth = math.exp(Gmax * 9 * dt0)
                rec.close(e, 2e3 * EPS * (1 + np.max(mag) * dt0 * (abs(key) + len(trace))) * scale * growth * (1 + len(trace)),
                          f"C01/{name}/history", "state after a sequence of steps differs from the exact solution at the elapsed time",
                          D=D, N=N, L=L, elapsed=key, trace=list(trace))
                rec.outcome("hist", name, D, N, L, key, float(np.sum(np.asarray(iv))))

            def same(a, b):
                return float(np.max(np.abs(np.asarray(a) - np.asarray(b)))) <= 1e-11 * scale

            n, md = bfs(rec, [(0, jnp.asarray(u0[None]), 0)], HIST_OPS, step, inv, depth=u["depth"], same=same, label=f"C01/{name}/history")
            rec.dim("history_states", n)
    rec.sample({"history": name, "D": D, "ops": HIST_OPS, "depth": u["depth"], "key": "elapsed time / dt"})


def unit_histwave(u, rec):
    import jax.numpy as jnp

    import exponax as ex

    D = u["D"]
    c, dt0 = 0.8, 0.1
    for N in ({1: (7, 8), 2: (5, 6), 3: (4, 5)}[D]):
        for L in (1.0, 2 * math.pi):
            basis = ref.real_basis(D, N, nyquist=False)
            X = ref.grid(D, N, L)
            B = ref.basis_fields(D, N, L, basis, X)
            nb = len(basis)
            w = ref.weights(2 * nb, u["seed"] + 5)
            om = np.array([c * np.linalg.norm(ref.kappa(k, L)) for k, _ in basis])
            steppers = {op: ex.stepper.Wave(D, L, N, dt0 * m, speed_of_sound=c) for op, m in OP_T.items()}

            def exact(m):
                t = m * dt0
                out = np.zeros((2,) + (N,) * D)
                for i in range(nb):
                    h, vv = wave_exact(w[i], w[nb + i], om[i], t)
                    out[0] += h * B[i]
                    out[1] += vv * B[i]
                return out

            u0 = exact(0)
            scale = float(np.sum(np.abs(w))) * max(1.0, float(np.max(om)), 1.0 / float(np.min(om[om > 0])))

            def step(op, key, iv, mv):
                nk = key + OP_T[op]
                if abs(nk) > 9:
                    return None
                return nk, steppers[op](iv), nk

            def inv(key, iv, mv, trace):
                e = np.max(np.abs(np.asarray(iv) - exact(key)))
                rec.close(e, 2e3 * EPS * (1 + np.max(om) * dt0 * (abs(key) + len(trace))) * scale * (1 + len(trace)), "C01/Wave/history",
                          "wave state after a sequence of steps differs from the exact solution at the elapsed time",
                          D=D, N=N, L=L, elapsed=key, trace=list(trace))
                rec.outcome("histwave", D, N, L, key, float(np.sum(np.asarray(iv))))

            def same(a, b):
                return float(np.max(np.abs(np.asarray(a) - np.asarray(b)))) <= 1e-11 * scale

            bfs(rec, [(0, jnp.asarray(u0), 0)], HIST_OPS, step, inv, depth=u["depth"], same=same, label="C01/Wave/history")
    rec.sample({"history": "Wave", "D": D, "ops": HIST_OPS, "depth": u["depth"]})


def run_unit(u, rec):
    {"lin": unit_lin, "wave": unit_wave, "hist": unit_hist, "histwave": unit_histwave}[u["kind"]](u, rec)

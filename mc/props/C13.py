"""
C13 - specific, generic, normalized and difficulty interfaces give the same dynamics.

Full product over the (specific, generic) pairs of the stepper overview, the (generic, normalized, difficulty)
triples with the documented conversion formulas re-implemented here, rescalings (L, dt, coeffs) ->
(s L, t dt, rescaled coeffs) that keep the non-dimensional groups fixed, D in {1,2,3}, odd/even N, orders 0-4,
flags, and a state lattice.  Differential oracle: both sides are the real code, the CONVERSION between their
arguments is the reference model.  Conversion functions are checked against the documented formulas and as
mutual inverses on a lattice of tuples.
"""

import itertools
import math

import numpy as np

from mc import catalog, ref

EPS = 2.3e-16
RULE = ("one state per (pair, D, N, L, dt, order, flags, input state); two transitions (one call of each interface) per state; "
        "distinct_nontrivial = distinct observed outputs")
ASSUMPTIONS = [
    "generic steppers sum the zeroth-order coefficient over the D axes (documented as 1.grad^0): equivalences use a0/D",
    "Swift-Hohenberg's (k+Laplace)^2 is spatially mixed, the generic polynomial stepper is not: compared in 1D only",
    "tolerance 1e4*eps*(1+|lambda dt|_max)*scale",
]
LDT = [(1.0, 0.1), (3.0, 0.02), (2 * math.pi, 0.05)]
RESC = [(2.0, 1.0), (1.0, 3.0), (0.5, 0.1)]


def bounds(tier):
    if tier == "quick":
        return {"N": {1: [10, 11], 2: [8, 9], 3: [8]}, "L_dt": LDT, "orders": [0, 1, 2, 3, 4], "rescalings": RESC,
                "note": "quick rotates (L, dt) with (N, D, flags): 2 of 3 per pair, 1 of 3 per triple; thorough takes the full product"}
    return {"N": {1: [9, 10, 15, 16], 2: [8, 9, 12], 3: [8, 9]}, "L_dt": LDT, "orders": [0, 1, 2, 3, 4], "rescalings": RESC}


def norm_coeffs(a, L, dt):
    return tuple(c * dt / L**j for j, c in enumerate(a))


def diff_coeffs(alpha, D, N):
    return tuple(al if j == 0 else al * N**j * 2 ** (j - 1) * D for j, al in enumerate(alpha))


def mag_of(a, D, N, L, dt):
    kmax = 2 * np.pi * (N // 2) / L
    return dt * sum(abs(c) * D * kmax**j for j, c in enumerate(a))


# ------------------------------------------------------------------------------------------------ pairs
# each pair: name, dims, orders, build(ex, jnp, D, N, L, dt, order) -> (stepperA, stepperB, C, linear coeffs for the magnitude)


def PAIRS():
    P = []

    def add(name, dims, fn, orders=(0, 1, 2, 3, 4), amp=0.5):
        P.append((name, dims, fn, orders, amp))

    g = lambda ex: ex.stepper.generic
    c, nu, xi, mu = 0.7, 0.03, 0.02, 4e-4
    add("Advection~GeneralLinear", (1, 2, 3), lambda ex, jnp, D, N, L, dt, o: (
        ex.stepper.Advection(D, L, N, dt, velocity=c), g(ex).GeneralLinearStepper(D, L, N, dt, linear_coefficients=(0.0, -c)), 1, (0, c)), orders=(0,))
    add("Diffusion~GeneralLinear", (1, 2, 3), lambda ex, jnp, D, N, L, dt, o: (
        ex.stepper.Diffusion(D, L, N, dt, diffusivity=nu), g(ex).GeneralLinearStepper(D, L, N, dt, linear_coefficients=(0.0, 0.0, nu)), 1, (0, 0, nu)), orders=(0,))
    add("AdvectionDiffusion~GeneralLinear", (1, 2, 3), lambda ex, jnp, D, N, L, dt, o: (
        ex.stepper.AdvectionDiffusion(D, L, N, dt, velocity=c, diffusivity=nu), g(ex).GeneralLinearStepper(D, L, N, dt, linear_coefficients=(0.0, -c, nu)), 1, (0, c, nu)), orders=(0,))
    add("Dispersion~GeneralLinear", (1, 2, 3), lambda ex, jnp, D, N, L, dt, o: (
        ex.stepper.Dispersion(D, L, N, dt, dispersivity=xi), g(ex).GeneralLinearStepper(D, L, N, dt, linear_coefficients=(0.0, 0.0, 0.0, xi)), 1, (0, 0, 0, xi)), orders=(0,))
    add("HyperDiffusion~GeneralLinear", (1, 2, 3), lambda ex, jnp, D, N, L, dt, o: (
        ex.stepper.HyperDiffusion(D, L, N, dt, hyper_diffusivity=mu), g(ex).GeneralLinearStepper(D, L, N, dt, linear_coefficients=(0.0, 0.0, 0.0, 0.0, -mu)), 1, (0, 0, 0, 0, mu)), orders=(0,))
    b1 = 0.8
    for single, cons in itertools.product((False, True), repeat=2):
        tag = f"single={single},cons={cons}"
        add(f"Burgers~GeneralConvection/{tag}", (1, 2, 3), lambda ex, jnp, D, N, L, dt, o, s=single, cn=cons: (
            ex.stepper.Burgers(D, L, N, dt, diffusivity=nu, convection_scale=b1, single_channel=s, conservative=cn, order=o),
            g(ex).GeneralConvectionStepper(D, L, N, dt, linear_coefficients=(0.0, 0.0, nu), convection_scale=b1, single_channel=s, conservative=cn, order=o),
            1 if s else D, (0, 0, nu)))
    a3, zeta = 0.015, 2e-4
    for single, cons in ((False, False), (True, True)):
        add(f"KdV~GeneralConvection/single={single},cons={cons}", (1, 2, 3), lambda ex, jnp, D, N, L, dt, o, s=single, cn=cons: (
            ex.stepper.KortewegDeVries(D, L, N, dt, convection_scale=-1.2, diffusivity=nu, dispersivity=a3, hyper_diffusivity=zeta, single_channel=s, conservative=cn, order=o),
            g(ex).GeneralConvectionStepper(D, L, N, dt, linear_coefficients=(0.0, 0.0, nu, -a3, -zeta), convection_scale=-1.2, single_channel=s, conservative=cn, order=o),
            1 if s else D, (0, 0, nu, a3, zeta)))
    p1, p2 = 0.04, 3e-4
    for single in (False, True):
        add(f"KSConservative~GeneralConvection/single={single}", (1, 2, 3), lambda ex, jnp, D, N, L, dt, o, s=single: (
            ex.stepper.KuramotoSivashinskyConservative(D, L, N, dt, convection_scale=b1, second_order_scale=p1, fourth_order_scale=p2, single_channel=s, conservative=True, order=o),
            g(ex).GeneralConvectionStepper(D, L, N, dt, linear_coefficients=(0.0, 0.0, -p1, 0.0, -p2), convection_scale=b1, single_channel=s, conservative=True, order=o),
            1 if s else D, (0, 0, p1, 0, p2)))
    add("KS~GeneralGradientNorm", (1, 2, 3), lambda ex, jnp, D, N, L, dt, o: (
        ex.stepper.KuramotoSivashinsky(D, L, N, dt, gradient_norm_scale=0.7, second_order_scale=p1, fourth_order_scale=p2, order=o),
        g(ex).GeneralGradientNormStepper(D, L, N, dt, linear_coefficients=(0.0, 0.0, -p1, 0.0, -p2), gradient_norm_scale=0.7, order=o), 1, (0, 0, p1, 0, p2)))
    r = 0.8
    add("FisherKPP~GeneralPolynomial", (1, 2, 3), lambda ex, jnp, D, N, L, dt, o: (
        ex.stepper.reaction.FisherKPP(D, L, N, dt, diffusivity=nu, reactivity=r, order=o),
        g(ex).GeneralPolynomialStepper(D, L, N, dt, linear_coefficients=(r / D, 0.0, nu), polynomial_coefficients=(0.0, 0.0, -r), order=o), 1, (r / D, 0, nu)))
    add("AllenCahn~GeneralPolynomial", (1, 2, 3), lambda ex, jnp, D, N, L, dt, o: (
        ex.stepper.reaction.AllenCahn(D, L, N, dt, diffusivity=nu, first_order_coefficient=0.9, third_order_coefficient=-1.1, order=o),
        g(ex).GeneralPolynomialStepper(D, L, N, dt, linear_coefficients=(0.9 / D, 0.0, nu), polynomial_coefficients=(0.0, 0.0, 0.0, -1.1), dealiasing_fraction=0.5, order=o),
        1, (0.9 / D, 0, nu)))
    kc, rr = 0.8, 0.6  # not the defaults: k and k^2 differ
    add("SwiftHohenberg~GeneralPolynomial(1D)", (1,), lambda ex, jnp, D, N, L, dt, o: (
        ex.stepper.reaction.SwiftHohenberg(D, L, N, dt, reactivity=rr, critical_number=kc, polynomial_coefficients=(0.0, 0.0, 1.0, -1.0), order=o),
        g(ex).GeneralPolynomialStepper(D, L, N, dt, linear_coefficients=(rr - kc * kc, 0.0, -2 * kc, 0.0, -1.0), polynomial_coefficients=(0.0, 0.0, 1.0, -1.0),
                                       dealiasing_fraction=0.5, order=o), 1, (rr + kc * kc, 0, 2 * kc, 0, 1.0)))
    drag = -0.1
    add("NSVorticity~GeneralVorticityConvection", (2,), lambda ex, jnp, D, N, L, dt, o: (
        ex.stepper.NavierStokesVorticity(D, L, N, dt, diffusivity=nu, vorticity_convection_scale=0.9, drag=drag, order=o),
        g(ex).GeneralVorticityConvectionStepper(D, L, N, dt, vorticity_convection_scale=0.9, linear_coefficients=(drag / D, 0.0, nu), order=o), 1, (drag / D, 0, nu)))
    add("KolmogorovVorticity~GeneralVorticityConvection", (2,), lambda ex, jnp, D, N, L, dt, o: (
        ex.stepper.KolmogorovFlowVorticity(D, L, N, dt, diffusivity=nu, convection_scale=0.9, drag=drag, injection_mode=1, injection_scale=0.6, order=o),
        g(ex).GeneralVorticityConvectionStepper(D, L, N, dt, vorticity_convection_scale=0.9, linear_coefficients=(drag / D, 0.0, nu), injection_mode=1, injection_scale=0.6, order=o),
        1, (drag / D, 0, nu)))
    LC = (0.0, -0.3, 0.02, 0.01, -1e-4)
    add("GeneralNonlinear(b1)~GeneralConvection", (1, 2, 3), lambda ex, jnp, D, N, L, dt, o: (
        g(ex).GeneralNonlinearStepper(D, L, N, dt, linear_coefficients=LC, nonlinear_coefficients=(0.0, -0.7, 0.0), order=o),
        g(ex).GeneralConvectionStepper(D, L, N, dt, linear_coefficients=LC, convection_scale=0.7, single_channel=True, conservative=True, order=o), 1, LC))
    add("GeneralNonlinear(b0)~GeneralPolynomial", (1, 2, 3), lambda ex, jnp, D, N, L, dt, o: (
        g(ex).GeneralNonlinearStepper(D, L, N, dt, linear_coefficients=LC, nonlinear_coefficients=(0.4, 0.0, 0.0), order=o),
        g(ex).GeneralPolynomialStepper(D, L, N, dt, linear_coefficients=LC, polynomial_coefficients=(0.0, 0.0, 0.4), order=o), 1, LC))
    add("GeneralNonlinear(b2)~GeneralGradientNorm", (1, 2, 3), lambda ex, jnp, D, N, L, dt, o: (
        g(ex).GeneralNonlinearStepper(D, L, N, dt, linear_coefficients=LC, nonlinear_coefficients=(0.0, 0.0, 0.5), order=o),
        g(ex).GeneralGradientNormStepper(D, L, N, dt, linear_coefficients=LC, gradient_norm_scale=-0.5, order=o), 1, LC))
    return P


# generic families for the general / normalized / difficulty / rescaling triples
def FAMS():
    F = {}
    LC = (0.1, -0.3, 0.02, 0.01, -1e-4)
    M = 1.3

    def lin(ex, jnp, D, N, L, dt, o, a, **_):
        return ex.stepper.generic.GeneralLinearStepper(D, L, N, dt, linear_coefficients=a)

    F["linear"] = dict(orders=(0,), C=lambda D, fl: 1, flags=[{}],
                       general=lambda ex, jnp, D, N, L, dt, o, a, s, fl: ex.stepper.generic.GeneralLinearStepper(D, L, N, dt, linear_coefficients=a),
                       normalized=lambda ex, jnp, D, N, o, al, be, fl: ex.stepper.generic.NormalizedLinearStepper(D, N, normalized_linear_coefficients=al),
                       difficulty=lambda ex, jnp, D, N, o, ga, de, fl: ex.stepper.generic.DifficultyLinearStepper(D, N, linear_difficulties=ga),
                       scale=None, a=LC, s=None)
    F["convection"] = dict(orders=(0, 1, 2, 3, 4), C=lambda D, fl: 1 if fl["single_channel"] else D,
                           flags=[dict(single_channel=a, conservative=b) for a, b in itertools.product((False, True), repeat=2)],
                           general=lambda ex, jnp, D, N, L, dt, o, a, s, fl: ex.stepper.generic.GeneralConvectionStepper(D, L, N, dt, linear_coefficients=a, convection_scale=s, order=o, **fl),
                           normalized=lambda ex, jnp, D, N, o, al, be, fl: ex.stepper.generic.NormalizedConvectionStepper(D, N, normalized_linear_coefficients=al, normalized_convection_scale=be, order=o, **fl),
                           difficulty=lambda ex, jnp, D, N, o, ga, de, fl: ex.stepper.generic.DifficultyConvectionStepper(D, N, linear_difficulties=ga, convection_difficulty=de, maximum_absolute=M, order=o, **fl),
                           scale="conv", a=LC, s=0.8)
    F["gradient_norm"] = dict(orders=(0, 1, 2, 3, 4), C=lambda D, fl: 1, flags=[{}],
                              general=lambda ex, jnp, D, N, L, dt, o, a, s, fl: ex.stepper.generic.GeneralGradientNormStepper(D, L, N, dt, linear_coefficients=a, gradient_norm_scale=s, order=o),
                              normalized=lambda ex, jnp, D, N, o, al, be, fl: ex.stepper.generic.NormalizedGradientNormStepper(D, N, normalized_linear_coefficients=al, normalized_gradient_norm_scale=be, order=o),
                              difficulty=lambda ex, jnp, D, N, o, ga, de, fl: ex.stepper.generic.DifficultyGradientNormStepper(D, N, linear_difficulties=ga, gradient_norm_difficulty=de, maximum_absolute=M, order=o),
                              scale="gn", a=LC, s=0.6)
    F["polynomial"] = dict(orders=(0, 1, 2, 3, 4), C=lambda D, fl: 1, flags=[{}],
                           general=lambda ex, jnp, D, N, L, dt, o, a, s, fl: ex.stepper.generic.GeneralPolynomialStepper(D, L, N, dt, linear_coefficients=a, polynomial_coefficients=s, order=o),
                           normalized=lambda ex, jnp, D, N, o, al, be, fl: ex.stepper.generic.NormalizedPolynomialStepper(D, N, normalized_linear_coefficients=al, normalized_polynomial_coefficients=be, order=o),
                           difficulty=lambda ex, jnp, D, N, o, ga, de, fl: ex.stepper.generic.DifficultyPolynomialStepper(D, N, linear_difficulties=ga, polynomial_difficulties=de, order=o),
                           scale="poly", a=LC, s=(0.0, 0.3, -0.6))
    F["nonlinear"] = dict(orders=(0, 1, 2, 3, 4), C=lambda D, fl: 1, flags=[{}],
                          general=lambda ex, jnp, D, N, L, dt, o, a, s, fl: ex.stepper.generic.GeneralNonlinearStepper(D, L, N, dt, linear_coefficients=a, nonlinear_coefficients=s, order=o),
                          normalized=lambda ex, jnp, D, N, o, al, be, fl: ex.stepper.generic.NormalizedNonlinearStepper(D, N, normalized_linear_coefficients=al, normalized_nonlinear_coefficients=be, order=o),
                          difficulty=lambda ex, jnp, D, N, o, ga, de, fl: ex.stepper.generic.DifficultyNonlinearStepper(D, N, linear_difficulties=ga, nonlinear_difficulties=de, maximum_absolute=M, order=o),
                          scale="nonlin", a=LC, s=(0.3, -0.7, 0.4))
    return F, M


def norm_scale(kind, s, L, dt):
    if kind is None:
        return None
    if kind == "conv":
        return s * dt / L
    if kind == "gn":
        return s * dt / L**2
    if kind == "poly":
        return tuple(p * dt for p in s)
    if kind == "nonlin":
        return (s[0] * dt, s[1] * dt / L, s[2] * dt / L**2)


def diff_scale(kind, be, D, N, M):
    if kind is None:
        return None
    if kind == "conv":
        return be * M * N * D
    if kind == "gn":
        return be * M * N * N * D
    if kind == "poly":
        return be
    if kind == "nonlin":
        return (be[0], be[1] * M * N * D, be[2] * M * N * N * D)


def rescale_scale(kind, s, sc, tc):
    """(L, dt) -> (sc*L, tc*dt) keeping the non-dimensional groups fixed"""
    if kind is None:
        return None
    if kind == "conv":
        return s * sc / tc
    if kind == "gn":
        return s * sc**2 / tc
    if kind == "poly":
        return tuple(p / tc for p in s)
    if kind == "nonlin":
        return (s[0] / tc, s[1] * sc / tc, s[2] * sc**2 / tc)


def units(tier, seed):
    b = bounds(tier)
    us = []
    for i, (name, dims, fn, orders, amp) in enumerate(PAIRS()):
        for D in dims:
            for N in b["N"][D]:
                us.append({"name": f"pair/{name}/D{D}/N{N}", "kind": "pair", "pair": i, "D": D, "Ns": [N], "cost": 10 * D * D * len(orders)})
    F, M = FAMS()
    for fam in F:
        for D in (1, 2, 3):
            for N in b["N"][D]:
                for fi in range(len(F[fam]["flags"])):
                    us.append({"name": f"triple/{fam}/D{D}/N{N}/f{fi}", "kind": "triple", "fam": fam, "D": D, "Ns": [N], "flag": fi, "cost": 30 * D * D})
    us.append({"name": "conversions", "kind": "conv", "cost": 1})
    return us


def compare(rec, sig, A, B, states, mag, info):
    import jax.numpy as jnp

    for si, s in enumerate(states):
        sj = jnp.asarray(s)
        ya, yb = np.asarray(A(sj)), np.asarray(B(sj))
        scale = max(1.0, float(np.max(np.abs(ya))))
        rec.count(states=1, transitions=2, traces=1)
        rec.close(np.max(np.abs(ya - yb)), 1e4 * EPS * (1 + mag) * scale, sig, "the two interfaces give different steps for equivalent arguments", state=si, **info)
        rec.outcome_array(ya.ravel()[:: max(1, ya.size // 8)])


def unit_pair(u, rec):
    import jax.numpy as jnp

    import exponax as ex

    name, dims, fn, orders, amp = PAIRS()[u["pair"]]
    D = u["D"]
    rec.dim("pair", name)
    for N in u["Ns"]:
        for (L, dt) in (LDT if u["tier"] == "thorough" else [LDT[(N + D) % 3], LDT[(N + D + 1) % 3]]):
            for o in orders:
                A, B, C, a = fn(ex, jnp, D, N, L, dt, o)
                states = catalog.smooth_states(D, N, C, u["seed"], count=2, amp=amp)
                compare(rec, f"C13/pair/{name}", A, B, states, mag_of(a, D, N, L, dt), dict(D=D, N=N, L=L, dt=dt, order=o))
                rec.dim("order", o)
    rec.sample({"pair": name, "D": D, "N": u["Ns"], "L_dt": LDT, "orders": list(orders)})


def unit_triple(u, rec):
    import jax.numpy as jnp

    import exponax as ex

    F, M = FAMS()
    f = F[u["fam"]]
    D = u["D"]
    rec.dim("family", u["fam"])
    for N in u["Ns"]:
        for fl in [f["flags"][u["flag"]]]:
            C = f["C"](D, fl)
            states = catalog.smooth_states(D, N, C, u["seed"], count=2, amp=0.5)
            for (L, dt) in (LDT if u["tier"] == "thorough" else [LDT[(N + D + u["flag"]) % 3]]):
                a, s = f["a"], f["s"]
                al = norm_coeffs(a, L, dt)
                be = norm_scale(f["scale"], s, L, dt)
                ga = diff_coeffs(al, D, N)
                de = diff_scale(f["scale"], be, D, N, M)
                mag = mag_of(a, D, N, L, dt)
                for o in f["orders"]:
                    G = f["general"](ex, jnp, D, N, L, dt, o, a, s, fl)
                    Nn = f["normalized"](ex, jnp, D, N, o, al, be, fl)
                    Df = f["difficulty"](ex, jnp, D, N, o, ga, de, fl)
                    info = dict(D=D, N=N, L=L, dt=dt, order=o, flags=fl)
                    compare(rec, f"C13/general~normalized/{u['fam']}", G, Nn, states, mag, info)
                    compare(rec, f"C13/normalized~difficulty/{u['fam']}", Nn, Df, states, mag, info)
                    if o in (0, 2, 4):
                        for (sc, tc) in RESC:
                            a2 = tuple(c * sc**j / tc for j, c in enumerate(a))
                            s2 = rescale_scale(f["scale"], s, sc, tc)
                            G2 = f["general"](ex, jnp, D, N, L * sc, dt * tc, o, a2, s2, fl)
                            compare(rec, f"C13/rescaling/{u['fam']}", G, G2, states, mag, dict(rescale=[sc, tc], **info))
    rec.sample({"family": u["fam"], "D": D, "N": u["Ns"], "a": f["a"], "s": f["s"], "L_dt": LDT, "rescalings": RESC})


def unit_conv(u, rec):
    import exponax as ex

    g = ex.stepper.generic
    tuples = [(0.3,), (0.0, -1.0), (0.1, -0.2, 0.03), (0.0, 0.5, -0.01, 2e-3), (1.0, -1.0, 1.0, -1.0, 1.0), (0.0, 0.0, 0.0, 0.0, 0.0, 1e-6)]
    for a in tuples:
        for (L, dt) in [(1.0, 1.0), (3.0, 0.02), (2 * math.pi, 7.0), (0.37, 1e-3)]:
            al = g.normalize_coefficients(a, domain_extent=L, dt=dt)
            want = norm_coeffs(a, L, dt)
            rec.count(states=1, transitions=2, traces=1)
            rec.close(max(abs(x - y) for x, y in zip(al, want)), 8 * EPS * max(1e-300, max(abs(y) for y in want)), "C13/conv/normalize_coefficients", "alpha_j != a_j dt / L^j", a=a, L=L, dt=dt)
            back = g.denormalize_coefficients(al, domain_extent=L, dt=dt)
            rec.close(max(abs(x - y) for x, y in zip(back, a)), 8 * EPS * max(abs(y) for y in a), "C13/conv/denormalize_inverse", "denormalize(normalize(a)) != a", a=a, L=L, dt=dt)
            rec.check(len(al) == len(a) and len(back) == len(a), "C13/conv/length", "conversion changes the tuple length", a=a)
            for D, N in itertools.product((1, 2, 3), (8, 15, 48)):
                ga = g.reduce_normalized_coefficients_to_difficulty(al, num_spatial_dims=D, num_points=N)
                wg = diff_coeffs(want, D, N)
                rec.count(states=1, transitions=2, traces=1)
                rec.close(max(abs(x - y) for x, y in zip(ga, wg)), 16 * EPS * max(1e-300, max(abs(y) for y in wg)), "C13/conv/reduce_to_difficulty", "gamma_j != alpha_j N^j 2^(j-1) D (gamma_0 = alpha_0)", a=a, D=D, N=N)
                bk = g.extract_normalized_coefficients_from_difficulty(ga, num_spatial_dims=D, num_points=N)
                rec.close(max(abs(x - y) for x, y in zip(bk, al)), 16 * EPS * max(1e-300, max(abs(y) for y in al)), "C13/conv/extract_inverse", "extract(reduce(alpha)) != alpha", a=a, D=D, N=N)
                rec.outcome("conv", a, L, dt, D, N, float(sum(ga)))
    for s in (1.0, -0.7, 3.5):
        for (L, dt) in [(1.0, 1.0), (3.0, 0.02), (2 * math.pi, 7.0)]:
            b1 = g.normalize_convection_scale(s, domain_extent=L, dt=dt)
            rec.close(abs(b1 - s * dt / L), 8 * EPS * abs(s * dt / L), "C13/conv/normalize_convection", "beta_1 != b_1 dt / L", s=s, L=L, dt=dt)
            rec.close(abs(g.denormalize_convection_scale(b1, domain_extent=L, dt=dt) - s), 8 * EPS * abs(s), "C13/conv/denormalize_convection", "inverse", s=s)
            b2 = g.normalize_gradient_norm_scale(s, domain_extent=L, dt=dt)
            rec.close(abs(b2 - s * dt / L**2), 8 * EPS * abs(s * dt / L**2), "C13/conv/normalize_gradient_norm", "beta_2 != b_2 dt / L^2", s=s, L=L, dt=dt)
            rec.close(abs(g.denormalize_gradient_norm_scale(b2, domain_extent=L, dt=dt) - s), 8 * EPS * abs(s), "C13/conv/denormalize_gradient_norm", "inverse", s=s)
            ps = (0.1, s, -2 * s)
            pn = g.normalize_polynomial_scales(ps, domain_extent=L, dt=dt)
            rec.close(max(abs(x - p * dt) for x, p in zip(pn, ps)), 8 * EPS * abs(2 * s * dt), "C13/conv/normalize_polynomial", "normalized polynomial scale != p dt", s=s, dt=dt)
            rec.close(max(abs(x - p) for x, p in zip(g.denormalize_polynomial_scales(pn, domain_extent=L, dt=dt), ps)), 8 * EPS * abs(2 * s), "C13/conv/denormalize_polynomial", "inverse", s=s)
            rec.count(states=1, transitions=6, traces=1)
            for D, N, M in itertools.product((1, 2, 3), (8, 15), (1.0, 2.5)):
                d1 = g.reduce_normalized_convection_scale_to_difficulty(b1, num_spatial_dims=D, num_points=N, maximum_absolute=M)
                rec.close(abs(d1 - b1 * M * N * D), 16 * EPS * abs(b1 * M * N * D), "C13/conv/reduce_convection", "delta_1 != beta_1 M N D", D=D, N=N, M=M)
                rec.close(abs(g.extract_normalized_convection_scale_from_difficulty(d1, num_spatial_dims=D, num_points=N, maximum_absolute=M) - b1), 16 * EPS * abs(b1), "C13/conv/extract_convection", "inverse", D=D, N=N)
                d2 = g.reduce_normalized_gradient_norm_scale_to_difficulty(b2, num_spatial_dims=D, num_points=N, maximum_absolute=M)
                rec.close(abs(d2 - b2 * M * N * N * D), 16 * EPS * abs(b2 * M * N * N * D), "C13/conv/reduce_gradient_norm", "delta_2 != beta_2 M N^2 D", D=D, N=N, M=M)
                rec.close(abs(g.extract_normalized_gradient_norm_scale_from_difficulty(d2, num_spatial_dims=D, num_points=N, maximum_absolute=M) - b2), 16 * EPS * abs(b2), "C13/conv/extract_gradient_norm", "inverse", D=D, N=N)
                rec.count(states=1, transitions=4, traces=1)
                # the triple form (quadratic, single-channel convection, gradient norm) used by the difficulty nonlinear stepper (not re-exported)
                try:
                    from exponax.stepper.generic import _utils as gu

                    gu.reduce_normalized_nonlinear_scales_to_difficulty, gu.extract_normalized_nonlinear_scales_from_difficulty
                except (ImportError, AttributeError):  # not part of the exported interface: absent after a refactor is not a violation
                    rec.dim("skipped", "nonlinear-scale triple conversions not present")
                    continue
                bt = (0.3 * s, b1, b2)
                dt3 = gu.reduce_normalized_nonlinear_scales_to_difficulty(bt, num_spatial_dims=D, num_points=N, maximum_absolute=M)
                wt = (bt[0], b1 * M * N * D, b2 * M * N * N * D)
                rec.close(max(abs(x - y) for x, y in zip(dt3, wt)), 16 * EPS * max(abs(y) for y in wt), "C13/conv/reduce_nonlinear_triple",
                          "(delta_0, delta_1, delta_2) != (beta_0, beta_1 M N D, beta_2 M N^2 D)", D=D, N=N, M=M)
                bk3 = gu.extract_normalized_nonlinear_scales_from_difficulty(dt3, num_spatial_dims=D, num_points=N, maximum_absolute=M)
                rec.close(max(abs(x - y) for x, y in zip(bk3, bt)), 16 * EPS * max(abs(y) for y in bt), "C13/conv/extract_nonlinear_triple", "inverse", D=D, N=N, M=M)
                rec.check(len(dt3) == 3 and len(bk3) == 3, "C13/conv/nonlinear_triple_length", "conversion changes the tuple length")
                rec.count(states=1, transitions=2, traces=1)
    rec.sample({"conversion_tuples": [list(t) for t in tuples]})


def run_unit(u, rec):
    {"pair": unit_pair, "triple": unit_triple, "conv": unit_conv}[u["kind"]](u, rec)

"""
C19 - steps stay finite and precision-faithful across stiffness and dtype.

Two child SESSIONS (fresh processes) per work unit: the library's default single-precision session and an
x64 session.  Each enumerates (a) ETDRK orders 0-4 on a stiffness lattice z = lambda*dt in {0} u {-10^e, e=-3..15}
u left-half-plane / imaginary rays up to |z| = 1e15 with user-defined nonlinear terms, an O(1) state and the zero
state; (b) every public stepper class x order 0-4 at a small configuration with smooth states and the zero state.
The parent joins both tables: finiteness, output dtype == the session's default float (complex counterpart in
Fourier space), zero -> zero for unforced equations, and |y32 - y64| <= K*eps32*size for every entry.
"""

import json
import math
import os
import subprocess
import sys

import numpy as np

from mc import catalog

X64 = True  # the parent only does numpy work; the children decide their own precision
EPS32 = 1.2e-7
RULE = ("one state per (session, ETDRK order, nonlinear term, dt, input state, z) and per (session, stepper entry, D, order, input state); transition = one "
        "step / step_fourier call in a child session; distinct_nontrivial = distinct observed outputs")
ASSUMPTIONS = [
    "double-precision fidelity of step_fourier itself is decided by C02 (agreement with the reference scheme to 1e-12 in an x64 session); C19 adds "
    "the transform wrappers via a numpy-FFT cross-check",
    "a session is a fresh interpreter with JAX_ENABLE_X64 = 0 / 1 (plus one that imports the library in single precision and then enables x64); inputs are created from the same float64 numpy data in all",
    "agreement bound: 400*eps32*(1+|lambda dt|_max)*scale (conditioning of exp(z) in single precision); for the z-lattice the bound is applied where |z| <= 1e3 "
    "(beyond that the single-precision rounding of z itself changes exp(i Im z) by O(1): only finiteness and dtype are claimed there)",
]


def bounds(tier):
    return {"z_lattice": "{0} u {-10^e: e=-3..15} u 6 rays x |z| in {1e-2,1,1e2,1e4,1e6,1e9,1e12,1e15}", "dt": [1.0, 0.01], "orders": [0, 1, 2, 3, 4],
            "stepper_N": {1: 12, 2: 8, 3: 8}}


def units(tier, seed):
    us = [{"name": "etdrk/z_lattice", "kind": "etdrk", "dts": [1.0, 0.01], "cost": 50}]
    top = 220 if tier == "quick" else 520
    for lo in range(3, top, 55):
        us.append({"name": f"discrete/N{lo}", "kind": "discrete", "Ns": list(range(lo, min(lo + 55, top))), "cost": 20})
    for e in catalog.entries():
        for D in e.dims:
            if tier == "quick" and D == 3 and e.name.split("/")[0] not in ("NavierStokesVelocity", "KolmogorovFlowVelocity", "Burgers", "Diffusion"):
                continue
            us.append({"name": f"stepper/{e.name}/D{D}", "kind": "stepper", "entry": e.name, "D": D, "N": {1: 12, 2: 8, 3: 8}[D], "cost": 10 * D * D})
    return us


def child(task, x64):
    env = dict(os.environ)
    env["JAX_ENABLE_X64"] = "1" if x64 else "0"
    env["JAX_PLATFORMS"] = "cpu"
    p = subprocess.run([sys.executable, "-m", "mc.c19child"], input=json.dumps(task), capture_output=True, text=True, env=env,
                       cwd=os.path.dirname(os.path.dirname(os.path.dirname(os.path.abspath(__file__)))))
    if p.returncode != 0:
        raise RuntimeError(f"child session (x64={x64}) failed: {p.stderr[-1500:]}")
    return json.loads(p.stdout)


def dec(d):
    a = np.array(d["re"], dtype=float)
    if "im" in d:
        a = a + 1j * np.array(d["im"], dtype=float)
    return a.reshape(d["shape"])


def run_unit(u, rec):
    task = {k: v for k, v in u.items() if k in ("kind", "dts", "entry", "D", "N", "seed", "Ns")}
    r32 = child(task, False)
    r64 = child(task, True)
    if u["kind"] in ("etdrk", "stepper"):
        # third session: the interpreter starts in single precision, imports the library, and only then enables x64. Everything the library
        # computes afterwards must be what the x64-from-the-start session computes (nothing may have been frozen at import time).
        rl = child(dict(task, late_x64=True), False)
        rec.check(rl["default_float"] == "float64" and rl["x64"], "C19/session/late_x64_is_float64", "enabling x64 after the import does not give a double-precision session")
        tl = {json.dumps(it["key"]): it for it in rl["items"]}
        rec.check(len(tl) == len(r64["items"]), "C19/session/tables_differ", "the late-x64 session explored different cases")
        for it64 in r64["items"]:
            itl = tl.get(json.dumps(it64["key"]))
            if itl is None:
                continue
            rec.count(states=1, transitions=1, traces=1)
            name = "etdrk" if u["kind"] == "etdrk" else str(it64["key"][1])
            if it64["key"][0] == "leaves":
                rec.check(itl["leaf_dtypes"] == it64["leaf_dtypes"], f"C19/late_x64/leaf_precision/{name}", "precomputed arrays differ in precision when x64 is enabled after the import",
                          got=itl["leaf_dtypes"], want=it64["leaf_dtypes"], key=it64["key"])
                continue
            rec.check(itl["dtype"] == it64["dtype"], f"C19/late_x64/dtype/{name}", "result dtype differs when x64 is enabled after the import", got=itl["dtype"], want=it64["dtype"], key=it64["key"])
            a, b = dec(itl["y"]), dec(it64["y"])
            fin = np.isfinite(b)
            rec.check(bool(np.all(np.isfinite(a) == fin)), f"C19/late_x64/finite/{name}", "finiteness differs when x64 is enabled after the import", key=it64["key"])
            sc = max(1.0, float(np.max(np.abs(b[fin])))) if fin.any() else 1.0
            err = float(np.max(np.abs(a[fin] - b[fin]))) if fin.any() else 0.0
            rec.close(err, 1e-11 * sc, f"C19/late_x64/fidelity/{name}",
                      "a session that enables x64 after importing the library computes with less than double precision (something was frozen at import time or memoised during the preceding single-precision use)", key=it64["key"], scale=sc)
    rec.check(r32["default_float"] == "float32" and not r32["x64"], "C19/session/default_is_float32", "the default session is not single precision", got=r32["default_float"])
    rec.check(r64["default_float"] == "float64" and r64["x64"], "C19/session/x64_is_float64", "the x64 session is not double precision", got=r64["default_float"])
    t64 = {json.dumps(it["key"]): it for it in r64["items"]}
    rec.check(len(r32["items"]) == len(r64["items"]) and len(t64) == len(r64["items"]), "C19/session/tables_differ", "the two sessions explored different cases")
    if u["kind"] == "discrete":
        for it32 in r32["items"]:
            it64 = t64.get(json.dumps(it32["key"]))
            rec.count(states=2, transitions=2, traces=2)
            if it64 is None:
                continue
            for field in ("wavenumbers_int", "wavenumber_sum_abs", "dealias_counts", "low_pass_counts", "oddball_count", "scaling_hist"):
                rec.check(it32[field] == it64[field], f"C19/discrete_session_dependent/{field}",
                          "a discrete decision (layout / mask / band / scaling class) differs between the single- and double-precision sessions",
                          key=it32["key"], float32=it32[field] if field != "low_pass_counts" else None, float64=it64[field] if field != "low_pass_counts" else None)
            rec.check(it32["wavenumbers_int"] and it64["wavenumbers_int"], "C19/discrete/wavenumbers_not_integers", "wavenumbers are not exact integers", key=it32["key"])
            rec.outcome("discrete", tuple(it32["key"]), it64["oddball_count"], tuple(it64["low_pass_counts"][:4]))
        rec.sample({"unit": u["name"], "N": [u["Ns"][0], u["Ns"][-1]], "fields": ["wavenumbers", "dealiasing masks", "low-pass masks", "oddball mask", "scaling classes"]})
        return
    if u["kind"] == "etdrk":
        Z = dec(r64["z"])
    else:
        e = catalog.by_name()[u["entry"]]
        D, N = u["D"], u["N"]
        L, dt = (1.0, 1.0) if e.fixed else (2.5, 0.05)
        if e.sym is not None:
            mag = max(e.sym(tuple([N // 2] * D), D, N, L, ch)[1] for ch in range(e.channels(D))) * dt
        else:
            mag = 0.8 * 2 * np.pi * (N // 2) / L * math.sqrt(D) * dt
    for it32 in r32["items"]:
        key = it32["key"]
        it64 = t64.get(json.dumps(key))
        if it64 is None:
            continue
        if key[0] == "leaves":
            rec.count(states=2, transitions=2, traces=2)
            rec.check(set(it32["leaf_dtypes"]) <= {"float32", "complex64"}, f"C19/leaf_precision/{key[1]}/float32_session",
                      "the stepper holds precomputed arrays of another precision than the session default", got=it32["leaf_dtypes"], key=key)
            rec.check(set(it64["leaf_dtypes"]) <= {"float64", "complex128"}, f"C19/leaf_precision/{key[1]}/x64_session",
                      "in the x64 session the stepper holds single-precision precomputed arrays (silent fallback)", got=it64["leaf_dtypes"], key=key)
            rec.outcome("leaves", key[1], key[4], tuple(it64["leaf_dtypes"]))
            continue
        y32, y64 = dec(it32["y"]), dec(it64["y"])
        rec.count(states=2 * (y32.size if u["kind"] == "etdrk" else 1), transitions=2, traces=2)
        tag = "/".join(str(k) for k in key[:2])
        info = dict(key=key)
        # dtype fidelity
        if u["kind"] == "etdrk":
            rec.check(it32["dtype"] == "complex64", f"C19/dtype/etdrk/float32_session", "step result is not complex64 in the single-precision session", got=it32["dtype"], **info)
            rec.check(it64["dtype"] == "complex128", f"C19/dtype/etdrk/x64_session", "step result is not complex128 in the x64 session", got=it64["dtype"], **info)
        else:
            rec.check(it32["in_dtype"] == "float32" and it32["dtype"] == "float32" and it32["fourier_dtype"] == "complex64", f"C19/dtype/{key[1]}/float32_session",
                      "the step does not carry the session's default single precision", got=[it32["in_dtype"], it32["dtype"], it32["fourier_dtype"]], **info)
            rec.check(it64["dtype"] == "float64" and it64["fourier_dtype"] == "complex128", f"C19/dtype/{key[1]}/x64_session",
                      "the step silently falls back to another precision in the x64 session", got=[it64["dtype"], it64["fourier_dtype"]], **info)
        # finiteness
        f32, f64 = np.isfinite(y32), np.isfinite(y64)
        if u["kind"] == "etdrk":
            bad = np.where(~f32)[0]
            rec.check(bad.size == 0, f"C19/finite/etdrk/order{key[1]}/float32", "non-finite ETDRK step in single precision for Re(lambda dt) <= 0",
                      z=[complex(Z[i]) for i in bad[:4]], **info)
            bad = np.where(~f64)[0]
            rec.check(bad.size == 0, f"C19/finite/etdrk/order{key[1]}/float64", "non-finite ETDRK step in double precision for Re(lambda dt) <= 0",
                      z=[complex(Z[i]) for i in bad[:4]], **info)
        else:
            rec.check(bool(f32.all()), f"C19/finite/{key[1]}/float32", "non-finite step result in single precision", **info)
            rec.check(bool(f64.all()), f"C19/finite/{key[1]}/float64", "non-finite step result in double precision", **info)
        # zero state
        is_zero_state = (key[-1] == "zero") if u["kind"] == "etdrk" else (key[-1] == 2)
        if is_zero_state:
            if u["kind"] == "etdrk":
                if key[2] != "const":
                    rec.check(float(np.max(np.abs(y32))) == 0.0 and float(np.max(np.abs(y64))) == 0.0, "C19/zero/etdrk", "the zero state does not map to zero for a homogeneous term", **info)
            elif not catalog.by_name()[key[1]].forced:
                rec.check(float(np.max(np.abs(y32))) == 0.0 and float(np.max(np.abs(y64))) == 0.0, f"C19/zero/{key[1]}", "the zero state is not a fixed point of an unforced equation", **info)
        # agreement between the sessions
        if f32.all() and f64.all():
            if u["kind"] == "etdrk":
                sel = np.abs(Z) <= 1e3
                scale = 1.0 + np.abs(y64)
                r = np.abs(y32 - y64) / (400 * EPS32 * (1 + np.abs(Z)) * scale)
                r = np.where(sel, r, 0.0)
                i = int(np.argmax(r))
                rec.close(r[i], 1.0, f"C19/agreement/etdrk/order{key[1]}", "single- and double-precision ETDRK steps disagree beyond single-precision rounding",
                          z=complex(Z[i]), y32=complex(y32[i]), y64=complex(y64[i]), **info)
            else:
                scale = max(1.0, float(np.max(np.abs(y64))))
                rec.close(float(np.max(np.abs(y32 - y64))), 400 * EPS32 * (1 + mag) * scale * math.log2(max(2, y64.size)), f"C19/agreement/{key[1]}",
                          "single- and double-precision steps disagree beyond single-precision rounding scaled by the problem size", **info)
        if u["kind"] == "stepper" and f64.all():
            ya = dec(it64["y_alt"])
            rec.close(float(np.max(np.abs(ya - y64))), 1e5 * 2.3e-16 * (1 + mag) * max(1.0, float(np.max(np.abs(y64)))), f"C19/x64_fidelity/{key[1]}",
                      "in the x64 session the step loses double precision somewhere in its transforms (differs from the same step with numpy float64 FFTs)", **info)
        rec.outcome_array(y64.ravel()[:: max(1, y64.size // 8)])
    rec.sample({"unit": u["name"], "sessions": [r32["default_float"], r64["default_float"]], "entries_per_session": len(r32["items"]), "first_key": r32["items"][0]["key"]})

"""
Child session of the C06 harness (context histories): a FRESH interpreter executes one history of construction contexts, so that whatever the
library memoises on first use (per contour size, per resolution, per class) is first filled in the context the history says.  Alphabet:
    E  build the stepper eagerly with a Python float and step       J  build + step inside eqx.filter_jit with a traced parameter
    V  build a batch of 3 steppers inside eqx.filter_vmap and step  S  build + step inside a lax.scan body (traced parameter)
Reads one JSON task {"seq": [...], "cls": ...} on stdin, prints one JSON result (one output array per history element).  No oracle in here.
"""
import json
import os
import sys

sys.path.insert(0, os.path.dirname(os.path.dirname(os.path.abspath(__file__))))
import warnings

warnings.filterwarnings("ignore")
import numpy as np

VALS = [0.02, 0.05, 0.11]


def main():
    task = json.loads(sys.stdin.read())
    import contextlib

    with contextlib.redirect_stdout(sys.stderr):
        import equinox as eqx
        import jax
        import jax.numpy as jnp

        import exponax as ex

        jax.config.update("jax_enable_x64", True)
        N = 16
        x = np.arange(N) / N
        u0 = jnp.asarray((0.6 * np.sin(2 * np.pi * x) + 0.3 * np.cos(4 * np.pi * x + 0.4))[None])

        def make(p):
            if task["cls"] == "Burgers":
                return ex.stepper.Burgers(1, 2.5, N, 0.05, diffusivity=p, order=2)
            if task["cls"] == "KortewegDeVries":
                return ex.stepper.KortewegDeVries(1, 2.5, N, 0.001, diffusivity=p, order=4)
            if task["cls"] == "AllenCahn":
                return ex.stepper.reaction.AllenCahn(1, 2.5, N, 0.05, diffusivity=p, order=3)
            raise ValueError(task["cls"])

        out = {"items": []}
        for ctx in task["seq"]:
            try:
                if ctx == "E":
                    y = np.stack([np.asarray(make(float(v))(u0)) for v in VALS])
                elif ctx == "J":
                    f = eqx.filter_jit(lambda p: make(p)(u0))
                    y = np.stack([np.asarray(f(jnp.asarray(v))) for v in VALS])
                elif ctx == "V":
                    batch = eqx.filter_vmap(make)(jnp.asarray(VALS))
                    y = np.asarray(eqx.filter_vmap(lambda s: s(u0))(batch))
                elif ctx == "S":
                    _, ys = jax.lax.scan(lambda c, p: (c, make(p)(u0)), 0.0, jnp.asarray(VALS))
                    y = np.asarray(ys)
                else:
                    raise ValueError(ctx)
                out["items"].append({"ctx": ctx, "y": y.astype(np.float64).ravel().tolist(), "shape": list(y.shape), "dtype": str(y.dtype)})
            except Exception as e:  # reported, judged by the parent
                out["items"].append({"ctx": ctx, "error": (type(e).__name__ + ": " + str(e))[:300]})
    sys.stdout.write(json.dumps(out))


if __name__ == "__main__":
    main()
